(* C14 — operations fail only in their documented cases.
   This file holds the source-wide half: every unconditional panic site of the non-test source
   (list regenerated from /repo on every run) is in the reviewed classification — a documented
   failure, an internal check that the refinement theorems exclude, or a dependency contract.
   The per-operation halves follow, grouped by area: for every documented failure case
       C14_<op>_panics_iff :  (model_op args = Panic <Kind> <-> <condition on the values>) /\
                              (~ <condition> -> exists r, model_op args = Ret r)
   ([fails_iff] below; in particular no OTHER panic kind, no Internal check, no OutOfFuel), for
   every `checked_*` method
       C14_checked_<op>_never_panics : exists r, checked_op args = Ret r /\ (r = None <-> <condition>)
   ([checked_iff]), and `exists r, op args = Ret r` ([total]) for the total operations.  Each is a
   corollary of the owning area's refinement theorem `model = omap enc (spec ...)`, whose Z-level
   spec is `if <condition> then Panic k else Ret ...` (proofs/FailureLemmas.v).
   Operations parameterised by a big multiplication / division are taken at the real models
   `Mul.umul Extracted.mul` / `Div.udivrem Extracted.div` (inst/InstBigOps.v). *)
From Coq Require Import ZArith List Bool Lia.
From BigNum Require Import Base BaseLemmas Cfg X86 AddSub SpecAddSub AddSubProofs Extracted InstAddSub.
From BigNum Require Import FailureLemmas PgrLoop PgrLoopProofs InstBigOps.
From BigNum Require Import Mul SpecMul MulProofs MulProofs3 MulProofs5 InstMul.
From BigNum Require Import ShiftCore Div SpecDiv DivProofs DivProofsCore DivProofsApi DivProofsSign InstDiv.
From BigNum Require Import Bits SpecBits BitsLemmas BitsProofsU BitsProofsTC BitsProofsI BitsProofsSNB InstBits.
From BigNum Require Import Pow SpecPow PowProofs Gcd SpecGcd GcdProofs GcdProofs2 GcdProofs3
  SpecRoots RootsMath Roots RootsProofs InstPgr.
From BigNum Require Import Monty Modpow SpecModpow MontyProofs ModinvZ ModpowProofs ModpowInst InstModpow.
From BigNum Require Import SpecBytes BytesLemmas Radix RadixText RadixKernels RadixApi SpecRadix
  RadixProofs RadixProofs2 RadixProofs3 RadixTextProofs RadixInst InstRadix InstRadixMul.
From BigNum Require Import Sign SpecSign SignProofs InstSign Rand SpecRand RandProofs InstRand.
From BigNum Require Import Prim SpecPrim PrimProofsCast PrimProofs PrimProofsFloat PrimProofsToFloat
  PrimProofsFromFloat InstPrim.
From BigNum Require Import BitDigits BitDigitsProofs Iter IterProofs Bytes BytesProofs SignedBytesProofs InstIter InstBytes.
Import ListNotations.
Open Scope Z_scope.

Local Notation P := Extracted.div.
Local Notation bmul := (Mul.umul Extracted.mul).        (* = PgrInst.pgr_bmul, ModpowInst.rmul *)
Local Notation bdivrem := (Div.udivrem Extracted.div).  (* = PgrInst.pgr_bdivrem, ModpowInst.rdivrem *)
Local Notation ok := div_params_ok.
Local Notation fails_iff m k C := ((m = Panic k <-> C) /\ (~ C -> exists r, m = Ret r)).
Local Notation checked_iff m C := (exists r, m = Ret r /\ (r = None <-> C)).
Local Notation total m := (exists r, m = Ret r).

Theorem C14_all_sites_classified : forallb site_ok panic_sites = true.
Proof. vm_compute. reflexivity. Qed.
Print Assumptions C14_all_sites_classified.

(** * C01 — addition, subtraction *)
(* BigUint subtraction: panics exactly when a < b, never otherwise; checked_sub never panics. *)
Theorem C14_usub_panics_iff : forall a b, canon a -> canon b ->
  (usub addsub a b = Panic SubUnderflow <-> val a < val b) /\
  (val b <= val a -> exists r, usub addsub a b = Ret r).
Proof.
  intros a b [Ha _] [Hb _]. rewrite usub_spec by auto using addsub_params_ok.
  destruct (Z.ltb_spec (val a) (val b)) as [H|H].
  - split; [split; [intros _; exact H|reflexivity]|intros; lia].
  - split; [split; [discriminate|intros; lia]|intros _; eexists; reflexivity].
Qed.
Print Assumptions C14_usub_panics_iff.

Theorem C14_uadd_never_panics : forall a b, canon a -> canon b -> exists r, uadd addsub a b = Ret r.
Proof. intros. rewrite uadd_spec by auto using addsub_params_ok. eauto. Qed.
Print Assumptions C14_uadd_never_panics.

Theorem C14_checked_sub_never_panics : forall a b, canon a -> canon b ->
  exists r, uchecked_sub addsub a b = Ret r /\ (r = None <-> val a < val b).
Proof.
  intros a b Ha Hb. rewrite uchecked_sub_spec by auto using addsub_params_ok.
  eexists; split; [reflexivity|]. destruct (Z.ltb_spec (val a) (val b)); split; intros; try lia; try discriminate; auto.
Qed.
Print Assumptions C14_checked_sub_never_panics.

Theorem C14_iadd_isub_never_panic : forall x y, icanon x -> icanon y ->
  (exists r, iadd addsub x y = Ret r) /\ (exists r, isub addsub x y = Ret r).
Proof.
  intros. rewrite iadd_spec, isub_spec by auto using addsub_params_ok. eauto.
Qed.
Print Assumptions C14_iadd_isub_never_panic.

Theorem C14_usub_ref_val_panics_iff : forall a b, canon a -> canon b ->
  fails_iff (usub_ref_val addsub a b) SubUnderflow (val a < val b).
Proof.
  intros a b Ca Cb. eapply panics_iff_ite; [apply usub_ref_val_spec; auto using addsub_params_ok | apply Z.ltb_lt].
Qed.
Print Assumptions C14_usub_ref_val_panics_iff.

(** * C02 — multiplication never panics *)
Theorem C14_mul_never_panics :
  (forall a b, canon a -> canon b -> total (umul mul a b) /\ total (umul_assign mul a b)) /\
  (forall x y, icanon x -> icanon y -> total (imul mul x y) /\ total (imul_assign mul x y)) /\
  (forall a s, canon a -> (0 <= s < B -> total (umul_digit a s)) /\ (0 <= s < B * B -> total (umul_u128 mul a s))).
Proof.
  pose proof mul_params_ok as Hm. split; [|split].
  - intros; split; eapply ret_never_panics; [apply umul_spec|apply umul_assign_spec]; auto.
  - intros; split; eapply ret_never_panics; [apply imul_spec|apply imul_assign_spec]; auto.
  - intros; split; intros; eapply ret_never_panics; [apply umul_digit_spec|apply umul_u128_spec]; auto.
Qed.
Print Assumptions C14_mul_never_panics.

Theorem C14_checked_mul_never_panics :
  (forall a b, canon a -> canon b -> exists r, uchecked_mul mul a b = Ret (Some r)) /\
  (forall x y, icanon x -> icanon y -> exists r, ichecked_mul mul x y = Ret (Some r)).
Proof.
  pose proof mul_params_ok as Hm. split; intros.
  - rewrite uchecked_mul_spec by auto. eexists; reflexivity.
  - rewrite ichecked_mul_spec by auto. eexists; reflexivity.
Qed.
Print Assumptions C14_checked_mul_never_panics.

(** * C03 — division and remainder: DivZero exactly on a zero divisor *)
Theorem C14_udivrem_panics_iff : forall a b, canon a -> canon b ->
  fails_iff (udivrem P a b) DivZero (val b = 0) /\
  fails_iff (udivrem_val P a b) DivZero (val b = 0) /\
  fails_iff (udiv_mod_floor P a b) DivZero (val b = 0) /\
  fails_iff (udiv_rem_euclid P a b) DivZero (val b = 0).
Proof.
  intros a b Ca Cb. split_ops; (eapply panics_iff_ite; [|apply eqb0_iff]).
  all: first [ apply udivrem_spec; auto using ok | apply udivrem_val_spec; auto using ok
             | rewrite udivrem_refines by auto using ok; unfold spec_udivrem, nz; apply omap_ite ].
Qed.
Print Assumptions C14_udivrem_panics_iff.

Theorem C14_udiv_panics_iff : forall a b, canon a -> canon b ->
  fails_iff (udiv P a b) DivZero (val b = 0) /\
  fails_iff (udiv_val P a b) DivZero (val b = 0) /\
  fails_iff (udiv_floor P a b) DivZero (val b = 0) /\
  fails_iff (udiv_euclid P a b) DivZero (val b = 0) /\
  fails_iff (udiv_ceil P a b) DivZero (val b = 0).
Proof.
  intros a b Ca Cb. split_ops; (eapply panics_iff_ite; [|apply eqb0_iff]).
  all: first [ rewrite udiv_spec by auto using ok | rewrite udiv_val_spec by auto using ok
             | rewrite udiv_ceil_spec by auto using ok ];
    unfold spec_udiv, spec_udiv_ceil, nz; apply omap_ite.
Qed.
Print Assumptions C14_udiv_panics_iff.

Theorem C14_urem_panics_iff : forall a b, canon a -> canon b ->
  fails_iff (urem P a b) DivZero (val b = 0) /\
  fails_iff (urem_val P a b) DivZero (val b = 0) /\
  fails_iff (umod_floor P a b) DivZero (val b = 0) /\
  fails_iff (urem_euclid P a b) DivZero (val b = 0).
Proof.
  intros a b Ca Cb. split_ops; (eapply panics_iff_ite; [|apply eqb0_iff]).
  all: first [ rewrite urem_spec by auto using ok | rewrite urem_val_spec by auto using ok
             | rewrite umod_floor_spec by auto using ok ];
    unfold spec_urem, nz; apply omap_ite.
Qed.
Print Assumptions C14_urem_panics_iff.

(* BigUint (/ %) uN and uN (/ %) BigUint *)
Theorem C14_udivrem_scalar_panics_iff : forall a s, canon a ->
  (0 <= s < B -> fails_iff (udiv_u32 P a s) DivZero (s = 0) /\ fails_iff (urem_u32 P a s) DivZero (s = 0) /\
                 fails_iff (udiv_u64 P a s) DivZero (s = 0) /\ fails_iff (urem_u64 P a s) DivZero (s = 0)) /\
  (0 <= s < B * B -> fails_iff (udiv_u128 P a s) DivZero (s = 0) /\ fails_iff (urem_u128 P a s) DivZero (s = 0)).
Proof.
  intros a s Ca. split; intros Hs; split_ops; (eapply panics_iff_ite; [|apply eqb0_iff]).
  all: first [ rewrite udiv_u32_spec by auto | rewrite urem_u32_spec by auto
             | rewrite udiv_u64_spec by auto using ok | rewrite urem_u64_spec by auto using ok
             | rewrite udiv_u128_spec by auto using ok | rewrite urem_u128_spec by auto using ok ];
    unfold spec_udiv, spec_urem, nz; apply omap_ite.
Qed.
Print Assumptions C14_udivrem_scalar_panics_iff.

Theorem C14_scalar_udivrem_panics_iff : forall s b, canon b ->
  (0 <= s < 2 ^ 32 -> fails_iff (u32_rem_u s b) DivZero (val b = 0)) /\
  (0 <= s < B -> fails_iff (digit_div_u s b) DivZero (val b = 0) /\ fails_iff (u64_rem_u s b) DivZero (val b = 0)) /\
  (0 <= s < B * B -> fails_iff (u128_div_u s b) DivZero (val b = 0) /\ fails_iff (u128_rem_u s b) DivZero (val b = 0)).
Proof.
  intros s b Cb. split; [|split]; intros Hs; split_ops; (eapply panics_iff_ite; [|apply eqb0_iff]).
  all: first [ rewrite u32_rem_u_spec by auto | rewrite digit_div_u_spec by auto | rewrite u64_rem_u_spec by auto
             | rewrite u128_div_u_spec by auto | rewrite u128_rem_u_spec by auto ];
    unfold spec_scalar_div, spec_scalar_rem, nz; apply omap_ite.
Qed.
Print Assumptions C14_scalar_udivrem_panics_iff.

(* BigInt: every rounding convention *)
Theorem C14_idiv_rem_panics_iff : forall x y, icanon x -> icanon y ->
  fails_iff (idiv_rem P x y) DivZero (ival y = 0) /\
  fails_iff (idiv P x y) DivZero (ival y = 0) /\
  fails_iff (irem P x y) DivZero (ival y = 0).
Proof.
  intros x y Cx Cy. split_ops; (eapply panics_iff_ite; [|apply eqb0_iff]).
  all: first [ rewrite idiv_rem_spec by auto using ok | rewrite idiv_spec by auto using ok
             | rewrite irem_spec by auto using ok ];
    unfold spec_idivrem, spec_idiv, spec_irem, nz; apply omap_ite.
Qed.
Print Assumptions C14_idiv_rem_panics_iff.

Theorem C14_idiv_floor_panics_iff : forall x y, icanon x -> icanon y ->
  fails_iff (idiv_floor P x y) DivZero (ival y = 0) /\
  fails_iff (imod_floor P x y) DivZero (ival y = 0) /\
  fails_iff (idiv_mod_floor P x y) DivZero (ival y = 0).
Proof.
  intros x y Cx Cy. split_ops; (eapply panics_iff_ite; [|apply eqb0_iff]).
  all: first [ rewrite idiv_floor_spec by auto using ok | rewrite imod_floor_spec by auto using ok
             | rewrite idiv_mod_floor_spec by auto using ok ];
    unfold spec_idiv_floor, spec_imod_floor, spec_idiv_mod_floor, nz; apply omap_ite.
Qed.
Print Assumptions C14_idiv_floor_panics_iff.

Theorem C14_idiv_euclid_panics_iff : forall x y, icanon x -> icanon y ->
  fails_iff (idiv_euclid P x y) DivZero (ival y = 0) /\
  fails_iff (irem_euclid P x y) DivZero (ival y = 0) /\
  fails_iff (idiv_rem_euclid P x y) DivZero (ival y = 0).
Proof.
  intros x y Cx Cy. split_ops; (eapply panics_iff_ite; [|apply eqb0_iff]).
  all: first [ rewrite idiv_euclid_spec by auto using ok | rewrite irem_euclid_spec by auto using ok
             | rewrite idiv_rem_euclid_spec by auto using ok ];
    unfold spec_div_euclid, spec_rem_euclid, spec_div_rem_euclid, nz; apply omap_ite.
Qed.
Print Assumptions C14_idiv_euclid_panics_iff.

Theorem C14_idiv_ceil_panics_iff : forall x y, icanon x -> icanon y ->
  fails_iff (idiv_ceil P x y) DivZero (ival y = 0).
Proof.
  intros x y Cx Cy. eapply panics_iff_ite; [|apply eqb0_iff].
  rewrite idiv_ceil_spec by auto using ok. unfold spec_idiv_ceil, nz; apply omap_ite.
Qed.
Print Assumptions C14_idiv_ceil_panics_iff.

(* every checked division variant of both types: never a panic, None exactly on a zero divisor *)
Theorem C14_checked_udiv_never_panics : forall a b, canon a -> canon b ->
  checked_iff (uchecked_div P a b) (val b = 0) /\
  checked_iff (uchecked_div_euclid P a b) (val b = 0) /\
  checked_iff (uchecked_rem_euclid P a b) (val b = 0) /\
  checked_iff (uchecked_div_rem_euclid P a b) (val b = 0).
Proof.
  intros a b Ca Cb. split_ops; (eapply checked_iff_ite; [|apply eqb0_iff]).
  all: first [ rewrite uchecked_div_spec by auto using ok | rewrite uchecked_div_euclid_spec by auto using ok
             | rewrite uchecked_rem_euclid_spec by auto using ok | rewrite uchecked_div_rem_euclid_spec by auto using ok ];
    unfold spec_uchecked_div, spec_uchecked_rem, spec_uchecked_divrem, chk; apply omap_chk.
Qed.
Print Assumptions C14_checked_udiv_never_panics.

Theorem C14_checked_idiv_never_panics : forall x y, icanon x -> icanon y ->
  checked_iff (ichecked_div P x y) (ival y = 0) /\
  checked_iff (ichecked_div_inherent P x y) (ival y = 0) /\
  checked_iff (ichecked_div_euclid P x y) (ival y = 0) /\
  checked_iff (ichecked_rem_euclid P x y) (ival y = 0) /\
  checked_iff (ichecked_div_rem_euclid P x y) (ival y = 0).
Proof.
  intros x y Cx Cy. split_ops; (eapply checked_iff_ite; [|apply eqb0_iff]).
  all: first [ rewrite ichecked_div_spec by auto using ok | rewrite ichecked_div_inherent_spec by auto using ok
             | rewrite ichecked_div_euclid_spec by auto using ok | rewrite ichecked_rem_euclid_spec by auto using ok
             | rewrite ichecked_div_rem_euclid_spec by auto using ok ];
    unfold spec_ichecked_div, spec_ichecked_div_euclid, spec_ichecked_rem_euclid, spec_ichecked_div_rem_euclid, chk;
    apply omap_chk.
Qed.
Print Assumptions C14_checked_idiv_never_panics.

(** * C07 — shifts: NegShift exactly on a negative amount; logic operators never panic *)
(* `<<` has a second failure: a result that cannot even be requested from the allocator
   (>= 2^60 digits) is the "capacity overflow" panic of `Vec` (SpecBits.spec_shl) *)
Theorem C14_ushl_panics_iff : forall a s, canon a ->
  (biguint_shl a s = Panic NegShift <-> s < 0) /\
  (biguint_shl a s = Panic MemOverflow <->
     0 <= s /\ val a <> 0 /\ 0 < s / 64 /\ 2 ^ 60 <= s / 64 + (zdigits (val a) + 1)) /\
  (0 <= s -> ~ (val a <> 0 /\ 0 < s / 64 /\ 2 ^ 60 <= s / 64 + (zdigits (val a) + 1)) ->
   exists r, biguint_shl a s = Ret r).
Proof.
  intros a s Ca. rewrite biguint_shl_spec by auto. unfold spec_shl, too_big.
  destruct (Z.ltb_spec s 0); [cbn; repeat split; intros; try discriminate; try lia|].
  destruct (Z.eqb_spec (val a) 0); [cbn; repeat split; intros; try discriminate; try lia; eexists; reflexivity|].
  destruct (Z.ltb_spec 0 (s / 64)); destruct (Z.leb_spec (2 ^ 60) (s / 64 + (zdigits (val a) + 1))); cbn;
    repeat split; intros; try discriminate; try lia; try tauto; eexists; reflexivity.
Qed.
Print Assumptions C14_ushl_panics_iff.

Theorem C14_ishl_panics_iff : forall x s, icanon x ->
  (ishl x s = Panic NegShift <-> s < 0) /\
  (ishl x s = Panic MemOverflow <->
     0 <= s /\ ival x <> 0 /\ 0 < s / 64 /\ 2 ^ 60 <= s / 64 + (zdigits (ival x) + 1)) /\
  (0 <= s -> ~ (ival x <> 0 /\ 0 < s / 64 /\ 2 ^ 60 <= s / 64 + (zdigits (ival x) + 1)) ->
   exists r, ishl x s = Ret r) /\
  ishl_assign x s = ishl x s.
Proof.
  intros x s Cx. rewrite ishl_assign_spec, ishl_spec by auto. split; [|split; [|split; [|reflexivity]]];
  unfold spec_shl, too_big;
  (destruct (Z.ltb_spec s 0); [cbn; repeat split; intros; try discriminate; try lia|]);
  (destruct (Z.eqb_spec (ival x) 0); [cbn; repeat split; intros; try discriminate; try lia; try (eexists; reflexivity)|]);
  destruct (Z.ltb_spec 0 (s / 64)); destruct (Z.leb_spec (2 ^ 60) (s / 64 + (zdigits (ival x) + 1))); cbn;
    repeat split; intros; try discriminate; try lia; try tauto; try (eexists; reflexivity).
Qed.
Print Assumptions C14_ishl_panics_iff.

Theorem C14_shr_panics_iff :
  (forall a s, canon a -> vec_ok a -> fails_iff (biguint_shr a s) NegShift (s < 0)) /\
  (forall x s, icanon x -> vec_ok (mag x) ->
     fails_iff (ishr bits addsub x s) NegShift (s < 0) /\ fails_iff (ishr_assign bits addsub x s) NegShift (s < 0)).
Proof.
  split; [intros a s Ca Va | intros x s Cx Vx; split]; (eapply panics_iff_ite; [|apply ltb0_iff]).
  - rewrite biguint_shr_spec by auto. unfold spec_shr. apply omap_ite.
  - rewrite ishr_spec by auto using bits_params_ok, addsub_params_ok. unfold spec_shr. apply omap_ite.
  - rewrite ishr_assign_spec by auto using bits_params_ok, addsub_params_ok. unfold spec_shr. apply omap_ite.
Qed.
Print Assumptions C14_shr_panics_iff.

Theorem C14_logic_never_panics : forall x y, icanon x -> icanon y ->
  total (iand bits x y) /\ total (iand_assign x y) /\ total (ior bits x y) /\ total (ior_assign bits x y) /\
  total (ixor bits x y) /\ total (ixor_assign bits x y) /\ total (inot addsub x) /\ total (inot_ref addsub x).
Proof.
  intros x y Cx Cy. pose proof bits_params_ok as Hb. pose proof addsub_params_ok as Ha.
  repeat split; eapply ret_never_panics;
    [apply iand_spec|apply iand_assign_spec|apply ior_spec|apply ior_assign_spec|apply ixor_spec|apply ixor_assign_spec
    |rewrite inot_spec by auto; reflexivity|rewrite inot_ref_spec by auto; reflexivity]; auto.
Qed.
Print Assumptions C14_logic_never_panics.

Theorem C14_bit_ops_never_panic :
  (forall a i v, canon a -> 0 <= i < B -> total (uset_bit bits a i v)) /\
  (forall x i v, icanon x -> vec_ok (mag x) -> 0 <= i < B -> total (iset_bit bits x i v)) /\
  (forall x i, icanon x -> 0 <= i -> total (ibit bits x i)).
Proof.
  pose proof bits_params_ok as Hb. split; [|split]; intros.
  - rewrite uset_bit_spec by auto. eexists; reflexivity.
  - rewrite iset_bit_spec by auto. eexists; reflexivity.
  - rewrite ibit_spec by auto. eexists; reflexivity.
Qed.
Print Assumptions C14_bit_ops_never_panic.

(** * C13 — gcd / lcm / Bezout never panic; next/prev_multiple_of: DivZero; dec: SubUnderflow *)
Theorem C14_gcd_lcm_never_panic :
  (forall a b, canon a -> canon b ->
     total (ugcd addsub pgr_gcd a b) /\ total (ulcm bmul bdivrem addsub pgr_gcd a b) /\
     total (ugcd_lcm bmul bdivrem addsub pgr_gcd a b)) /\
  (forall x y, icanon x -> icanon y ->
     total (igcd addsub pgr_gcd x y) /\ total (ilcm bmul bdivrem addsub pgr_gcd x y) /\
     total (igcd_lcm bmul bdivrem addsub pgr_gcd x y) /\ total (iextended_gcd bmul bdivrem addsub x y)).
Proof.
  pose proof umul_exact as Hm. pose proof udivrem_exact as Hd.
  pose proof addsub_params_ok as Ha. pose proof gcd_params_ok as Hg.
  split; intros; repeat split.
  - eapply ret_never_panics; apply ugcd_spec; auto.
  - eapply ret_never_panics; apply ulcm_spec; auto.
  - eapply ret_never_panics; apply ugcd_lcm_spec; auto.
  - eapply ret_never_panics; apply igcd_spec; auto.
  - eapply ret_never_panics; apply ilcm_spec; auto.
  - eapply ret_never_panics; apply igcd_lcm_spec; auto.
  - destruct (iextended_gcd_spec bmul bdivrem Hm Hd addsub Ha x y) as (g & u & w & E & _); auto.
    eexists; exact E.
Qed.
Print Assumptions C14_gcd_lcm_never_panic.

Theorem C14_multiple_of_panics_iff :
  (forall a b, canon a -> canon b ->
     fails_iff (unext_multiple_of bdivrem addsub a b) DivZero (val b = 0) /\
     fails_iff (uprev_multiple_of bdivrem addsub a b) DivZero (val b = 0) /\
     total (uis_multiple_of bdivrem a b)) /\
  (forall x y, icanon x -> icanon y ->
     fails_iff (inext_multiple_of bdivrem addsub x y) DivZero (ival y = 0) /\
     fails_iff (iprev_multiple_of bdivrem addsub x y) DivZero (ival y = 0) /\
     total (iis_multiple_of bdivrem x y)).
Proof.
  pose proof udivrem_exact as Hd. pose proof addsub_params_ok as Ha.
  split; intros; split_ops.
  - eapply panics_iff_ite; [|apply eqb0_iff].
    rewrite unext_multiple_of_spec by auto. unfold spec_next_multiple_of. apply omap_ite.
  - eapply panics_iff_ite; [|apply eqb0_iff].
    rewrite uprev_multiple_of_spec by auto. unfold spec_prev_multiple_of. apply omap_ite.
  - rewrite uis_multiple_of_spec by auto. eexists; reflexivity.
  - eapply panics_iff_ite; [|apply eqb0_iff].
    rewrite inext_multiple_of_spec by auto. unfold spec_next_multiple_of. apply omap_ite.
  - eapply panics_iff_ite; [|apply eqb0_iff].
    rewrite iprev_multiple_of_spec by auto. unfold spec_prev_multiple_of. apply omap_ite.
  - rewrite iis_multiple_of_spec by auto. eexists; reflexivity.
Qed.
Print Assumptions C14_multiple_of_panics_iff.

(* `Integer::dec` on a BigUint is `*self -= 1`: the subtraction-below-zero failure for zero *)
Theorem C14_inc_dec_panics_iff :
  (forall a, canon a -> fails_iff (udec addsub a) SubUnderflow (val a = 0) /\ total (uinc addsub a)) /\
  (forall x, icanon x -> total (idec addsub x) /\ total (iinc addsub x)).
Proof.
  pose proof addsub_params_ok as Ha. split; intros; split.
  - eapply panics_iff_ite; [rewrite udec_spec by auto; unfold spec_udec; apply omap_ite|].
    pose proof (val_nonneg a (proj1 H)). rewrite Z.ltb_lt. lia.
  - eapply ret_never_panics; apply uinc_spec; auto.
  - eapply ret_never_panics; apply idec_spec; auto.
  - eapply ret_never_panics; apply iinc_spec; auto.
Qed.
Print Assumptions C14_inc_dec_panics_iff.

(** * C12 — pow: a BigUint exponent that does not fit u128 with a base >= 2 is MemOverflow *)
Theorem C14_pow_big_panics_iff :
  (forall x e, canon x -> canon e ->
     fails_iff (upow_big bmul pgr_pow x e) MemOverflow (2 <= val x /\ 2 ^ 128 <= val e) /\
     fails_iff (upow_big_ref bmul pgr_pow x e) MemOverflow (2 <= val x /\ 2 ^ 128 <= val e)) /\
  (forall x e, icanon x -> canon e ->
     fails_iff (ipow_big bmul pgr_pow x e) MemOverflow (2 <= Z.abs (ival x) /\ 2 ^ 128 <= val e) /\
     fails_iff (ipow_big_ref bmul pgr_pow x e) MemOverflow (2 <= Z.abs (ival x) /\ 2 ^ 128 <= val e)).
Proof.
  pose proof umul_exact as Hm. pose proof pow_params_ok as Hp.
  assert (HB : BB = 2 ^ 128) by (rewrite BB_val, B_val; reflexivity).
  assert (Hc : forall u w, ((2 <=? u) && (BB <=? w)) = true <-> 2 <= u /\ 2 ^ 128 <= w).
  { intros u w. rewrite HB, andb_true_iff, !Z.leb_le. tauto. }
  split; intros; split; (eapply panics_iff_ite; [|apply Hc]).
  - apply upow_big_spec; auto.
  - apply upow_big_ref_spec; auto.
  - apply ipow_big_spec; auto.
  - apply ipow_big_ref_spec; auto.
Qed.
Print Assumptions C14_pow_big_panics_iff.

Theorem C14_pow_prim_never_panics :
  (forall x e, canon x -> 0 <= e < 2 ^ 128 ->
     total (upow_prim bmul pgr_pow x e) /\ total (upow_prim_ref bmul pgr_pow x e)) /\
  (forall x e, icanon x -> 0 <= e < 2 ^ 128 ->
     total (ipow_prim bmul pgr_pow x e) /\ total (ipow_prim_ref bmul pgr_pow x e)).
Proof.
  pose proof umul_exact as Hm. pose proof pow_params_ok as Hp.
  split; intros; split; eapply ret_never_panics;
    [apply upow_prim_spec|apply upow_prim_ref_spec|apply ipow_prim_spec|apply ipow_prim_ref_spec]; auto.
Qed.
Print Assumptions C14_pow_prim_never_panics.

(** * C11 — roots: ZeroRoot for degree 0, ImagRoot for an even root of a negative *)
(* [gf] = any initial-guess function returning canonical values >= 1 (C11: guess_ok) *)
Theorem C14_nth_root_panics_iff : forall gf, guess_ok gf -> forall x n, canon x -> 0 <= n < 2 ^ 32 ->
  fails_iff (unth_root bmul bdivrem addsub pgr_pow pgr_roots gf x n) ZeroRoot (n = 0) /\
  total (usqrt bdivrem addsub pgr_roots gf x) /\
  total (ucbrt bmul bdivrem addsub pgr_roots gf x).
Proof.
  intros gf Hg x n Cx Hn.
  pose proof umul_exact as Hm. pose proof udivrem_exact as Hd. pose proof addsub_params_ok as Ha.
  pose proof pow_params_ok as Hp. pose proof roots_params_ok as Hr.
  split; [|split].
  - eapply panics_iff_ite; [|apply eqb0_iff].
    rewrite unth_root_spec by auto. unfold spec_unth_root. apply omap_ite.
  - eapply ret_never_panics; apply usqrt_spec; auto.
  - eapply ret_never_panics; apply ucbrt_spec; auto.
Qed.
Print Assumptions C14_nth_root_panics_iff.

(* the evenness test comes first: (negative)^(1/0) is reported as ImagRoot *)
Theorem C14_inth_root_panics_iff : forall gf, guess_ok gf -> forall x n, icanon x -> 0 <= n < 2 ^ 32 ->
  let m := inth_root bmul bdivrem addsub pgr_pow pgr_roots gf x n in
  (m = Panic ImagRoot <-> ival x < 0 /\ Z.even n = true) /\
  (m = Panic ZeroRoot <-> ~ (ival x < 0 /\ Z.even n = true) /\ n = 0) /\
  (~ (ival x < 0 /\ Z.even n = true) -> n <> 0 -> exists r, m = Ret r).
Proof.
  intros gf Hg x n Cx Hn m. subst m.
  pose proof umul_exact as Hm. pose proof udivrem_exact as Hd. pose proof addsub_params_ok as Ha.
  pose proof pow_params_ok as Hp. pose proof roots_params_ok as Hr.
  eapply panics_iff_ite2; [discriminate| | |apply eqb0_iff].
  - rewrite inth_root_spec by auto. unfold spec_inth_root. apply omap_ite2.
  - rewrite andb_true_iff, Z.ltb_lt. tauto.
Qed.
Print Assumptions C14_inth_root_panics_iff.

Theorem C14_isqrt_icbrt_panics_iff : forall gf, guess_ok gf -> forall x, icanon x ->
  fails_iff (isqrt bdivrem addsub pgr_roots gf x) ImagRoot (ival x < 0) /\
  total (icbrt bmul bdivrem addsub pgr_roots gf x).
Proof.
  intros gf Hg x Cx.
  pose proof umul_exact as Hm. pose proof udivrem_exact as Hd. pose proof addsub_params_ok as Ha.
  pose proof roots_params_ok as Hr.
  split.
  - eapply panics_iff_ite; [|apply ltb0_iff]. rewrite isqrt_spec by auto. unfold spec_isqrt. apply omap_ite.
  - rewrite icbrt_spec by auto. eexists; reflexivity.
Qed.
Print Assumptions C14_isqrt_icbrt_panics_iff.

(** * C05 — modpow: ZeroModulus, NegExponent (tested first); modinv: ZeroModulus *)
(* r_umodpow etc. = the models at bmul / bdivrem (ModpowInst.v); 2^57 digits: the Montgomery
   buffer bound of C05 *)
Theorem C14_umodpow_panics_iff : forall x e m, canon x -> canon e -> canon m ->
  Z.of_nat (length m) < 2 ^ 57 ->
  fails_iff (r_umodpow modpow x e m) ZeroModulus (val m = 0).
Proof.
  intros x e m Cx Ce Cm Hl. eapply panics_iff_ite; [|apply eqb0_iff].
  apply (umodpow_spec addsub rmul rdivrem addsub_params_ok umul_exact udivrem_exact); auto using modpow_params_ok.
Qed.
Print Assumptions C14_umodpow_panics_iff.

Theorem C14_imodpow_panics_iff : forall x e m, icanon x -> icanon e -> icanon m ->
  Z.of_nat (length (mag m)) < 2 ^ 57 ->
  (r_imodpow modpow x e m = Panic NegExponent <-> ival e < 0) /\
  (r_imodpow modpow x e m = Panic ZeroModulus <-> ~ ival e < 0 /\ ival m = 0) /\
  (~ ival e < 0 -> ival m <> 0 -> exists r, r_imodpow modpow x e m = Ret r).
Proof.
  intros x e m Cx Ce Cm Hl. eapply panics_iff_ite2; [discriminate| |apply ltb0_iff|apply eqb0_iff].
  apply (imodpow_spec addsub rmul rdivrem addsub_params_ok umul_exact udivrem_exact); auto using modpow_params_ok.
Qed.
Print Assumptions C14_imodpow_panics_iff.

Theorem C14_modinv_panics_iff :
  (forall a m, canon a -> canon m -> fails_iff (r_umodinv a m) ZeroModulus (val m = 0)) /\
  (forall x m, icanon x -> icanon m -> fails_iff (r_imodinv modpow x m) ZeroModulus (ival m = 0)).
Proof.
  split.
  - intros a m Ca Cm.
    rewrite (umodinv_spec addsub rmul rdivrem addsub_params_ok umul_exact udivrem_exact) by auto.
    pose proof (val_nonneg m (proj1 Cm)) as Hm0.
    destruct (Z.eq_dec (val m) 0) as [E|N].
    + unfold spec_umodinv. rewrite E. cbn. split; [tauto|intros C; contradiction].
    + destruct (spec_umodinv_char (val a) (val m) ltac:(lia)) as (r & -> & _). cbn.
      split; [split; [discriminate|contradiction]|intros _; eexists; reflexivity].
  - intros x m Cx Cm.
    rewrite (imodinv_spec addsub rmul rdivrem addsub_params_ok umul_exact udivrem_exact) by auto using modpow_params_ok.
    destruct (Z.eq_dec (ival m) 0) as [E|N].
    + unfold spec_imodinv. rewrite E. cbn. split; [tauto|intros C; contradiction].
    + destruct (spec_imodinv_char (ival x) (ival m) N) as (r & -> & _). cbn.
      split; [split; [discriminate|contradiction]|intros _; eexists; reflexivity].
Qed.
Print Assumptions C14_modinv_panics_iff.

(** * C06 — radix conversions: BadRadix exactly outside 2..=256 (digit vectors) / 2..=36 (text) *)
Theorem C14_from_radix_panics_iff : forall buf r, bytes buf ->
  fails_iff (u_from_radix_le radix buf r) BadRadix (~ 2 <= r <= 256) /\
  fails_iff (u_from_radix_be radix buf r) BadRadix (~ 2 <= r <= 256) /\
  (forall s, fails_iff (i_from_radix_le radix s buf r) BadRadix (~ 2 <= r <= 256) /\
             fails_iff (i_from_radix_be radix s buf r) BadRadix (~ 2 <= r <= 256)).
Proof.
  intros buf r Hb. pose proof radix_params_std as Hs.
  split; [|split; [|intros s; split]]; (eapply panics_iff_eti; [|apply radix_in_false]).
  - rewrite inst_from_radix_le by auto. unfold spec_from_radix_le, radix_in. apply omap_eti.
  - rewrite inst_from_radix_be by auto. unfold spec_from_radix_be, spec_from_radix_le, radix_in. apply omap_eti.
  - rewrite inst_ifrom_radix_le by auto. unfold spec_ifrom_radix_le, spec_from_radix_le, radix_in.
    apply omap_bind_eti.
  - rewrite inst_ifrom_radix_be by auto.
    unfold spec_ifrom_radix_be, spec_ifrom_radix_le, spec_from_radix_le, radix_in. apply omap_bind_eti.
Qed.
Print Assumptions C14_from_radix_panics_iff.

(* any byte string (a parse error is a returned Err, not a panic) *)
Theorem C14_from_str_radix_panics_iff : forall s r,
  fails_iff (u_from_str_radix radix s r) BadRadix (~ 2 <= r <= 36) /\
  fails_iff (i_from_str_radix radix s r) BadRadix (~ 2 <= r <= 36) /\
  total (u_from_str radix s) /\ total (i_from_str radix s).
Proof.
  intros s r. pose proof radix_params_std as Hs.
  assert (U : forall r', fails_iff (u_from_str_radix radix s r') BadRadix (~ 2 <= r' <= 36)).
  { intros r'. rewrite inst_from_str_radix by auto. unfold spec_from_str, radix_in.
    destruct (split_sign false s) as [neg body].
    eapply panics_iff_eti; [apply omap_eti|apply radix_in_false]. }
  assert (I : forall r', fails_iff (i_from_str_radix radix s r') BadRadix (~ 2 <= r' <= 36)).
  { intros r'. rewrite inst_ifrom_str_radix by auto. unfold spec_from_str, radix_in.
    destruct (split_sign true s) as [neg body].
    eapply panics_iff_eti; [apply omap_eti|apply radix_in_false]. }
  split; [apply U|]. split; [apply I|]. split.
  - apply (proj2 (U 10)). lia.
  - apply (proj2 (I 10)). lia.
Qed.
Print Assumptions C14_from_str_radix_panics_iff.

(* parse_bytes looks at the radix only after the UTF-8 check *)
Theorem C14_parse_bytes_panics_iff : forall buf r,
  fails_iff (u_parse_bytes radix buf r) BadRadix (utf8_valid buf = true /\ ~ 2 <= r <= 36) /\
  fails_iff (i_parse_bytes radix buf r) BadRadix (utf8_valid buf = true /\ ~ 2 <= r <= 36).
Proof.
  intros buf r. pose proof radix_params_std as Hs.
  split; [rewrite inst_parse_bytes by auto | rewrite inst_iparse_bytes by auto];
    unfold spec_parse_bytes, spec_from_str, radix_in.
  all: destruct (utf8_valid buf);
    [|cbn; split; [split; [discriminate|intros [X _]; discriminate]|intros _; eexists; reflexivity]].
  all: match goal with |- context [split_sign ?b ?s] => destruct (split_sign b s) as [neg body] end.
  all: destruct ((2 <=? r) && (r <=? 36)) eqn:E; cbn.
  all: try (split; [split; [discriminate | intros [_ N]; apply radix_in_false in N; congruence]
                   | intros _; eexists; reflexivity]).
  all: split; [split; [intros _; split; [reflexivity | apply radix_in_false; exact E] | reflexivity]
              | intros N; exfalso; apply N; split; [reflexivity | apply radix_in_false; exact E]].
Qed.
Print Assumptions C14_parse_bytes_panics_iff.

Theorem C14_to_str_radix_panics_iff :
  (forall u r, canon u -> fails_iff (u_to_str_radix radix u r) BadRadix (~ 2 <= r <= 36)) /\
  (forall x r, icanon x -> fails_iff (i_to_str_radix radix x r) BadRadix (~ 2 <= r <= 36)).
Proof.
  pose proof radix_params_std as Hs. split; intros; (eapply panics_iff_eti; [|apply radix_in_false]).
  - rewrite inst_to_str_radix by auto using small_or_umul_proved. unfold spec_to_str, radix_in. reflexivity.
  - rewrite inst_ito_str_radix by auto using small_or_umul_proved. unfold spec_to_str, radix_in. reflexivity.
Qed.
Print Assumptions C14_to_str_radix_panics_iff.

(* `to_radix_le/be` do NOT assert their radix (the doc only says "radix must be in the range
   2...256"; model/Radix.v to_radix_le has no BadRadix arm): what is true is totality inside the
   documented range.  The five formatters use the fixed radices 2, 8, 10, 16. *)
Theorem C14_to_radix_never_panics_in_range :
  (forall u r, canon u -> 2 <= r <= 256 ->
     total (u_to_radix_le radix u r) /\ total (u_to_radix_be radix u r)) /\
  (forall k fl u, canon u -> total (u_fmt radix k fl u)) /\
  (forall k fl x, icanon x -> total (i_fmt radix k fl x)).
Proof.
  pose proof radix_params_std as Hs.
  assert (F : forall k fl z, total (spec_fmt k fl z)).
  { intros k fl z. unfold spec_fmt, spec_to_str.
    replace (radix_in 2 36 (fmt_radix k)) with true by (destruct k; reflexivity).
    cbn [bind]. eexists; reflexivity. }
  split; [|split]; intros.
  - split; eapply ret_never_panics; [apply inst_to_radix_le|apply inst_to_radix_be]; auto using small_or_umul_proved.
  - rewrite inst_fmt_u by auto using small_or_umul_proved. apply F.
  - rewrite inst_fmt_i by auto using small_or_umul_proved. apply F.
Qed.
Print Assumptions C14_to_radix_never_panics_in_range.

(** * C18 — random ranges: EmptyRange exactly on an empty / inverted range or a zero bound.
    The RNG is a finite scripted word stream: besides returning, the model can only run out of
    script ([OutOfFuel]); it never panics otherwise. *)
Theorem C14_rand_biguint_range_panics_iff : forall lo hi s k, canon lo -> canon hi -> words s ->
  (gen_biguint_range Extracted.rand addsub lo hi s = Panic k <-> val hi <= val lo /\ k = EmptyRange) /\
  (uu_sample_single Extracted.rand addsub lo hi s = Panic k <-> val hi <= val lo /\ k = EmptyRange) /\
  ((do u <- uu_new Extracted.rand addsub lo hi; uu_sample Extracted.rand addsub u s) = Panic k <-> val hi <= val lo /\ k = EmptyRange) /\
  ((do u <- uu_new_inclusive Extracted.rand addsub lo hi; uu_sample Extracted.rand addsub u s) = Panic k <-> val hi < val lo /\ k = EmptyRange).
Proof.
  intros lo hi s k Cl Ch Ws. pose proof addsub_params_ok as Ha. pose proof rand_params_ok as Hr.
  unfold uu_sample_single.
  rewrite gen_biguint_range_spec, uu_new_sample_spec, uu_new_inclusive_sample_spec by auto.
  rewrite !omap_panic_iff.
  split; [|split; [|split]]; first [apply spec_range_panic | apply spec_range_inclusive_panic].
Qed.
Print Assumptions C14_rand_biguint_range_panics_iff.

Theorem C14_rand_bigint_range_panics_iff : forall lo hi s k, icanon lo -> icanon hi -> words s ->
  (gen_bigint_range Extracted.rand Extracted.signs addsub lo hi s = Panic k <-> ival hi <= ival lo /\ k = EmptyRange) /\
  (ui_sample_single Extracted.rand Extracted.signs addsub lo hi s = Panic k <-> ival hi <= ival lo /\ k = EmptyRange) /\
  ((do u <- ui_new Extracted.rand Extracted.signs addsub lo hi; ui_sample Extracted.rand Extracted.signs addsub u s) = Panic k <-> ival hi <= ival lo /\ k = EmptyRange) /\
  ((do u <- ui_new_inclusive Extracted.rand Extracted.signs addsub lo hi; ui_sample Extracted.rand Extracted.signs addsub u s) = Panic k <-> ival hi < ival lo /\ k = EmptyRange).
Proof.
  intros lo hi s k Cl Ch Ws. pose proof addsub_params_ok as Ha. pose proof rand_params_ok as Hr. pose proof sign_params_ok as Hg.
  unfold ui_sample_single.
  rewrite gen_bigint_range_spec, ui_new_sample_spec, ui_new_inclusive_sample_spec by auto.
  rewrite !omap_panic_iff.
  split; [|split; [|split]]; first [apply spec_range_panic | apply spec_range_inclusive_panic].
Qed.
Print Assumptions C14_rand_bigint_range_panics_iff.

Theorem C14_rand_below_panics_iff : forall bound s k, canon bound -> words s ->
  (gen_biguint_below Extracted.rand bound s = Panic k <-> val bound = 0 /\ k = EmptyRange) /\
  (forall n, 0 <= n -> gen_biguint Extracted.rand n s <> Panic k).
Proof.
  intros bound s k Cb Ws. split.
  - rewrite gen_biguint_below_spec by auto using rand_params_ok. rewrite omap_panic_iff, spec_below_panic.
    pose proof (val_nonneg bound (proj1 Cb)). split; intros [? ?]; split; auto; lia.
  - intros n Hn. rewrite gen_biguint_spec by auto using rand_params_ok. intros E. apply omap_panic_iff in E.
    exact (spec_gen_biguint_no_panic _ _ _ E).
Qed.
Print Assumptions C14_rand_below_panics_iff.

(* hence: a non-empty range returns a value unless the scripted stream ends *)
Theorem C14_rand_range_otherwise : forall lo hi s, canon lo -> canon hi -> words s -> val lo < val hi ->
  (exists r, gen_biguint_range Extracted.rand addsub lo hi s = Ret r) \/ gen_biguint_range Extracted.rand addsub lo hi s = OutOfFuel.
Proof.
  intros lo hi s Cl Ch Ws Hlt. apply (only_panic_cases _ EmptyRange (val hi <= val lo)); [|lia].
  intros k. apply (C14_rand_biguint_range_panics_iff lo hi s k Cl Ch Ws).
Qed.
Print Assumptions C14_rand_range_otherwise.

(** * C08 — conversions never panic (a value that does not fit is None / Err, NaN and
    infinities give None) *)
Theorem C14_conversions_never_panic :
  (forall t v, canon v -> total (uto prim t v) /\ total (utry_into_owned prim t v) /\
                          total (uto_f64 prim v) /\ total (uto_f32 prim v)) /\
  (forall t x, icanon x -> total (ito prim t x) /\ total (itry_into_owned prim t x) /\
                           total (ito_f64 prim x) /\ total (ito_f32 prim x)) /\
  (forall t n, PrimProofs.in_range t n -> total (ufrom_prim t n) /\ total (ifrom t n) /\ total (ifrom_prim t n)) /\
  (forall b, 0 <= b < 2 ^ 64 -> total (ufrom_f64 b) /\ total (ifrom_f64 b)) /\
  (forall g, 0 <= g < 2 ^ 32 -> total (ufrom_f32 g) /\ total (ifrom_f32 g)).
Proof.
  pose proof prim_params_ok as Hp.
  split; [|split; [|split; [|split]]]; intros; repeat split; eapply ret_never_panics.
  - apply uto_spec; auto.
  - apply utry_into_owned_spec; auto.
  - apply uto_f64_spec; auto.
  - apply uto_f32_spec; auto.
  - apply ito_spec; auto.
  - apply itry_into_owned_spec; auto.
  - apply ito_f64_spec; auto.
  - apply ito_f32_spec; auto.
  - apply ufrom_prim_spec; auto.
  - apply ifrom_spec; auto.
  - apply ifrom_prim_spec; auto.
  - apply ufrom_f64_spec; auto.
  - apply ifrom_f64_spec; auto.
  - apply ufrom_f32_spec; auto.
  - apply ifrom_f32_spec; auto.
Qed.
Print Assumptions C14_conversions_never_panic.

(** * C09 — byte / digit-vector conversions and the digit iterators never panic *)
Theorem C14_bytes_never_panic :
  (forall u, canon u -> total (uto_bytes_le Extracted.byteio u) /\ total (uto_bytes_be Extracted.byteio u) /\ total (uto_u32_digits Extracted.iter u)) /\
  (forall x, icanon x -> total (ito_bytes_le Extracted.byteio x) /\ total (ito_bytes_be Extracted.byteio x) /\ total (ito_u32_digits Extracted.iter x) /\
                         total (to_signed_bytes_le Extracted.byteio x) /\ total (to_signed_bytes_be Extracted.byteio x)) /\
  (forall bs, inb 256 bs -> total (ufrom_bytes_le Extracted.byteio bs) /\ total (ufrom_bytes_be Extracted.byteio bs) /\
                            total (from_signed_bytes_le Extracted.byteio bs) /\ total (from_signed_bytes_be Extracted.byteio bs) /\
                            forall s, total (ifrom_bytes_le Extracted.byteio s bs) /\ total (ifrom_bytes_be Extracted.byteio s bs)).
Proof.
  split; [|split]; intros; repeat split; eapply ret_never_panics.
  - apply uto_bytes_le_spec; auto using bytes_params_ok.
  - apply uto_bytes_be_spec; auto using bytes_params_ok.
  - apply uto_u32_digits_spec; auto using iter_params_ok.
  - apply ito_bytes_le_spec; auto using bytes_params_ok.
  - apply ito_bytes_be_spec; auto using bytes_params_ok.
  - apply ito_u32_digits_spec; auto using iter_params_ok.
  - apply to_signed_bytes_le_spec; auto using bytes_params_ok.
  - apply to_signed_bytes_be_spec; auto using bytes_params_ok.
  - apply ufrom_bytes_le_spec; auto using bytes_params_ok.
  - apply ufrom_bytes_be_spec; auto using bytes_params_ok.
  - apply from_signed_bytes_le_spec; auto using bytes_params_ok.
  - apply from_signed_bytes_be_spec; auto using bytes_params_ok.
  - apply ifrom_bytes_le_spec; auto using bytes_params_ok.
  - apply ifrom_bytes_be_spec; auto using bytes_params_ok.
Qed.
Print Assumptions C14_bytes_never_panic.

(* every state reachable from `iter_u32_digits()` by any interleaving of calls *)
Theorem C14_iter_never_panics : forall s, inv s ->
  total (it_len Extracted.iter s) /\ total (it_size_hint Extracted.iter s) /\ total (it_count Extracted.iter s).
Proof.
  intros s Hs. repeat split; eapply ret_never_panics;
    [apply it_len_spec|apply it_size_hint_spec|apply it_count_spec]; auto using iter_params_ok.
Qed.
Print Assumptions C14_iter_never_panics.
(* The remaining models of C09 (unew, ufrom_slice, it_next, ...), C17 (serde) and C19 (sign
   queries, neg, abs, cmp) are total Gallina functions without an [outcome]: they have no panic arm. *)

(* Non-vacuity: each documented failure really occurs on canonical operands, and the same
   operation returns next to it. *)
Example C14_nonvacuous :
  canonb [1; 2] = true /\ canonb [5] = true /\
  usub addsub [5] [1; 2] = Panic SubUnderflow /\
  udiv P [1; 2] [] = Panic DivZero /\ udiv P [1; 2] [5] = Ret (enc ((1 + 2 * B) / 5)) /\
  uchecked_div P [1; 2] [] = Ret None /\
  idiv_floor P (mkint Minus [1; 2]) (mkint NoSign []) = Panic DivZero /\
  biguint_shl [5] (-1) = Panic NegShift /\ biguint_shl [5] 64 = Ret [0; 5] /\
  biguint_shl [5] (2 ^ 66) = Panic MemOverflow /\
  u_from_radix_le radix [1; 2] 257 = Panic BadRadix /\ u_to_str_radix radix [5] 37 = Panic BadRadix /\
  r_umodpow modpow [3] [4] [] = Panic ZeroModulus /\
  r_imodpow modpow (mkint Plus [3]) (mkint Minus [1]) (mkint Plus [7]) = Panic NegExponent /\
  upow_big bmul pgr_pow [2] [0; 0; 1] = Panic MemOverflow /\
  unth_root bmul bdivrem addsub pgr_pow pgr_roots guess_nostd [5] 0 = Panic ZeroRoot /\
  isqrt bdivrem addsub pgr_roots guess_nostd (mkint Minus [4]) = Panic ImagRoot /\
  gen_biguint_range Extracted.rand addsub [5] [5] [1; 2] = Panic EmptyRange /\
  gen_biguint_below Extracted.rand [] [1; 2] = Panic EmptyRange.
Proof. repeat split; vm_compute; reflexivity. Qed.
