(* C14 — operations fail only in their documented cases.
   This file holds the source-wide half: every unconditional panic site of the non-test source
   (list regenerated from /repo on every run) is in the reviewed classification — a documented
   failure, an internal check that the refinement theorems exclude, or a dependency contract.
   The per-operation halves ("= Panic k <-> documented failure condition", "checked_* = Ret None
   exactly then") are the `= omap enc (spec …)` theorems of C01–C13/C17–C19 themselves, because
   the Z-level specs state the panics; they are re-exported below as the areas are merged. *)
From BigNum Require Import Base BaseLemmas Cfg X86 AddSub SpecAddSub AddSubProofs Extracted InstAddSub.
Open Scope Z_scope.

Theorem C14_all_sites_classified : forallb site_ok panic_sites = true.
Proof. vm_compute. reflexivity. Qed.
Print Assumptions C14_all_sites_classified.

(* BigUint subtraction: panics exactly when a < b, never otherwise; checked_sub never panics. *)
Theorem C14_usub_panics_iff : forall a b, canon a -> canon b ->
  (usub addsub a b = Panic SubUnderflow <-> val a < val b) /\
  (val b <= val a -> exists r, usub addsub a b = Ret r).
Proof.
  intros a b [Ha _] [Hb _]. rewrite usub_spec by auto using addsub_params_ok.
  destruct (Z.ltb_spec (val a) (val b)) as [H|H].
  - split; [split; [intros _; exact H|reflexivity]|intros; lia].
  - split; [split; [discriminate|intros; lia]|intros _; eexists; reflexivity].
Qed.
Print Assumptions C14_usub_panics_iff.

Theorem C14_uadd_never_panics : forall a b, canon a -> canon b -> exists r, uadd addsub a b = Ret r.
Proof. intros. rewrite uadd_spec by auto using addsub_params_ok. eauto. Qed.
Print Assumptions C14_uadd_never_panics.

Theorem C14_checked_sub_never_panics : forall a b, canon a -> canon b ->
  exists r, uchecked_sub addsub a b = Ret r /\ (r = None <-> val a < val b).
Proof.
  intros a b Ha Hb. rewrite uchecked_sub_spec by auto using addsub_params_ok.
  eexists; split; [reflexivity|]. destruct (Z.ltb_spec (val a) (val b)); split; intros; try lia; try discriminate; auto.
Qed.
Print Assumptions C14_checked_sub_never_panics.

Theorem C14_iadd_isub_never_panic : forall x y, icanon x -> icanon y ->
  (exists r, iadd addsub x y = Ret r) /\ (exists r, isub addsub x y = Ret r).
Proof.
  intros. rewrite iadd_spec, isub_spec by auto using addsub_params_ok. eauto.
Qed.
Print Assumptions C14_iadd_isub_never_panic.
