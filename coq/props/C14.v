(* C14 — operations fail only in their documented cases.
   This file holds the source-wide half: every unconditional panic site of the non-test source
   (list regenerated from /repo on every run) is in the reviewed classification — a documented
   failure, an internal check that the refinement theorems exclude, or a dependency contract.
   The per-operation halves follow, grouped by area: for every documented failure case
       C14_<op>_panics_iff :  (model_op args = Panic <Kind> <-> <condition on the values>) /\
                              (~ <condition> -> exists r, model_op args = Ret r)
   ([fails_iff] below; in particular no OTHER panic kind, no Internal check, no OutOfFuel), for
   every `checked_*` method
       C14_checked_<op>_never_panics : exists r, checked_op args = Ret r /\ (r = None <-> <condition>)
   ([checked_iff]), and `exists r, op args = Ret r` ([total]) for the total operations.  Each is a
   corollary of the owning area's refinement theorem `model = omap enc (spec ...)`, whose Z-level
   spec is `if <condition> then Panic k else Ret ...` (proofs/FailureLemmas.v).
   Operations parameterised by a big multiplication / division are taken at the real models
   `Mul.umul Extracted.mul` / `Div.udivrem Extracted.div` (inst/InstBigOps.v). *)
From Coq Require Import ZArith List Bool Lia.
From BigNum Require Import Base BaseLemmas Cfg X86 AddSub SpecAddSub AddSubProofs Extracted InstAddSub.
From BigNum Require Import FailureLemmas PgrLoop PgrLoopProofs InstBigOps.
From BigNum Require Import Mul SpecMul MulProofs MulProofs3 MulProofs5 InstMul.
From BigNum Require Import ShiftCore Div SpecDiv DivProofs DivProofsCore DivProofsApi DivProofsSign InstDiv.
From BigNum Require Import Bits SpecBits BitsLemmas BitsProofsU BitsProofsTC BitsProofsI BitsProofsSNB InstBits.
Import ListNotations.
Open Scope Z_scope.

Local Notation P := Extracted.div.
Local Notation ok := div_params_ok.
Local Notation fails_iff m k C := ((m = Panic k <-> C) /\ (~ C -> exists r, m = Ret r)).
Local Notation checked_iff m C := (exists r, m = Ret r /\ (r = None <-> C)).
Local Notation total m := (exists r, m = Ret r).

Theorem C14_all_sites_classified : forallb site_ok panic_sites = true.
Proof. vm_compute. reflexivity. Qed.
Print Assumptions C14_all_sites_classified.

(** * C01 — addition, subtraction *)
(* BigUint subtraction: panics exactly when a < b, never otherwise; checked_sub never panics. *)
Theorem C14_usub_panics_iff : forall a b, canon a -> canon b ->
  (usub addsub a b = Panic SubUnderflow <-> val a < val b) /\
  (val b <= val a -> exists r, usub addsub a b = Ret r).
Proof.
  intros a b [Ha _] [Hb _]. rewrite usub_spec by auto using addsub_params_ok.
  destruct (Z.ltb_spec (val a) (val b)) as [H|H].
  - split; [split; [intros _; exact H|reflexivity]|intros; lia].
  - split; [split; [discriminate|intros; lia]|intros _; eexists; reflexivity].
Qed.
Print Assumptions C14_usub_panics_iff.

Theorem C14_uadd_never_panics : forall a b, canon a -> canon b -> exists r, uadd addsub a b = Ret r.
Proof. intros. rewrite uadd_spec by auto using addsub_params_ok. eauto. Qed.
Print Assumptions C14_uadd_never_panics.

Theorem C14_checked_sub_never_panics : forall a b, canon a -> canon b ->
  exists r, uchecked_sub addsub a b = Ret r /\ (r = None <-> val a < val b).
Proof.
  intros a b Ha Hb. rewrite uchecked_sub_spec by auto using addsub_params_ok.
  eexists; split; [reflexivity|]. destruct (Z.ltb_spec (val a) (val b)); split; intros; try lia; try discriminate; auto.
Qed.
Print Assumptions C14_checked_sub_never_panics.

Theorem C14_iadd_isub_never_panic : forall x y, icanon x -> icanon y ->
  (exists r, iadd addsub x y = Ret r) /\ (exists r, isub addsub x y = Ret r).
Proof.
  intros. rewrite iadd_spec, isub_spec by auto using addsub_params_ok. eauto.
Qed.
Print Assumptions C14_iadd_isub_never_panic.

Theorem C14_usub_ref_val_panics_iff : forall a b, canon a -> canon b ->
  fails_iff (usub_ref_val addsub a b) SubUnderflow (val a < val b).
Proof.
  intros a b Ca Cb. eapply panics_iff_ite; [apply usub_ref_val_spec; auto using addsub_params_ok | apply Z.ltb_lt].
Qed.
Print Assumptions C14_usub_ref_val_panics_iff.

(** * C02 — multiplication never panics *)
Theorem C14_mul_never_panics :
  (forall a b, canon a -> canon b -> total (umul mul a b) /\ total (umul_assign mul a b)) /\
  (forall x y, icanon x -> icanon y -> total (imul mul x y) /\ total (imul_assign mul x y)) /\
  (forall a s, canon a -> (0 <= s < B -> total (umul_digit a s)) /\ (0 <= s < B * B -> total (umul_u128 mul a s))).
Proof.
  pose proof mul_params_ok as Hm. split; [|split].
  - intros; split; eapply ret_never_panics; [apply umul_spec|apply umul_assign_spec]; auto.
  - intros; split; eapply ret_never_panics; [apply imul_spec|apply imul_assign_spec]; auto.
  - intros; split; intros; eapply ret_never_panics; [apply umul_digit_spec|apply umul_u128_spec]; auto.
Qed.
Print Assumptions C14_mul_never_panics.

Theorem C14_checked_mul_never_panics :
  (forall a b, canon a -> canon b -> exists r, uchecked_mul mul a b = Ret (Some r)) /\
  (forall x y, icanon x -> icanon y -> exists r, ichecked_mul mul x y = Ret (Some r)).
Proof.
  pose proof mul_params_ok as Hm. split; intros.
  - rewrite uchecked_mul_spec by auto. eexists; reflexivity.
  - rewrite ichecked_mul_spec by auto. eexists; reflexivity.
Qed.
Print Assumptions C14_checked_mul_never_panics.

(** * C03 — division and remainder: DivZero exactly on a zero divisor *)
Theorem C14_udivrem_panics_iff : forall a b, canon a -> canon b ->
  fails_iff (udivrem P a b) DivZero (val b = 0) /\
  fails_iff (udivrem_val P a b) DivZero (val b = 0) /\
  fails_iff (udiv_mod_floor P a b) DivZero (val b = 0) /\
  fails_iff (udiv_rem_euclid P a b) DivZero (val b = 0).
Proof.
  intros a b Ca Cb. repeat split; (eapply panics_iff_ite; [|apply eqb0_iff]).
  all: first [ apply udivrem_spec; auto using ok | apply udivrem_val_spec; auto using ok
             | rewrite udivrem_refines by auto using ok; unfold spec_udivrem, nz; apply omap_ite ].
Qed.
Print Assumptions C14_udivrem_panics_iff.

Theorem C14_udiv_panics_iff : forall a b, canon a -> canon b ->
  fails_iff (udiv P a b) DivZero (val b = 0) /\
  fails_iff (udiv_val P a b) DivZero (val b = 0) /\
  fails_iff (udiv_floor P a b) DivZero (val b = 0) /\
  fails_iff (udiv_euclid P a b) DivZero (val b = 0) /\
  fails_iff (udiv_ceil P a b) DivZero (val b = 0).
Proof.
  intros a b Ca Cb. repeat split; (eapply panics_iff_ite; [|apply eqb0_iff]).
  all: first [ rewrite udiv_spec by auto using ok | rewrite udiv_val_spec by auto using ok
             | rewrite udiv_ceil_spec by auto using ok ];
    unfold spec_udiv, spec_udiv_ceil, nz; apply omap_ite.
Qed.
Print Assumptions C14_udiv_panics_iff.

Theorem C14_urem_panics_iff : forall a b, canon a -> canon b ->
  fails_iff (urem P a b) DivZero (val b = 0) /\
  fails_iff (urem_val P a b) DivZero (val b = 0) /\
  fails_iff (umod_floor P a b) DivZero (val b = 0) /\
  fails_iff (urem_euclid P a b) DivZero (val b = 0).
Proof.
  intros a b Ca Cb. repeat split; (eapply panics_iff_ite; [|apply eqb0_iff]).
  all: first [ rewrite urem_spec by auto using ok | rewrite urem_val_spec by auto using ok
             | rewrite umod_floor_spec by auto using ok ];
    unfold spec_urem, nz; apply omap_ite.
Qed.
Print Assumptions C14_urem_panics_iff.

(* BigUint (/ %) uN and uN (/ %) BigUint *)
Theorem C14_udivrem_scalar_panics_iff : forall a s, canon a ->
  (0 <= s < B -> fails_iff (udiv_u32 P a s) DivZero (s = 0) /\ fails_iff (urem_u32 P a s) DivZero (s = 0) /\
                 fails_iff (udiv_u64 P a s) DivZero (s = 0) /\ fails_iff (urem_u64 P a s) DivZero (s = 0)) /\
  (0 <= s < B * B -> fails_iff (udiv_u128 P a s) DivZero (s = 0) /\ fails_iff (urem_u128 P a s) DivZero (s = 0)).
Proof.
  intros a s Ca. split; intros Hs; repeat split; (eapply panics_iff_ite; [|apply eqb0_iff]).
  all: first [ rewrite udiv_u32_spec by auto | rewrite urem_u32_spec by auto
             | rewrite udiv_u64_spec by auto using ok | rewrite urem_u64_spec by auto using ok
             | rewrite udiv_u128_spec by auto using ok | rewrite urem_u128_spec by auto using ok ];
    unfold spec_udiv, spec_urem, nz; apply omap_ite.
Qed.
Print Assumptions C14_udivrem_scalar_panics_iff.

Theorem C14_scalar_udivrem_panics_iff : forall s b, canon b ->
  (0 <= s < 2 ^ 32 -> fails_iff (u32_rem_u s b) DivZero (val b = 0)) /\
  (0 <= s < B -> fails_iff (digit_div_u s b) DivZero (val b = 0) /\ fails_iff (u64_rem_u s b) DivZero (val b = 0)) /\
  (0 <= s < B * B -> fails_iff (u128_div_u s b) DivZero (val b = 0) /\ fails_iff (u128_rem_u s b) DivZero (val b = 0)).
Proof.
  intros s b Cb. split; [|split]; intros Hs; repeat split; (eapply panics_iff_ite; [|apply eqb0_iff]).
  all: first [ rewrite u32_rem_u_spec by auto | rewrite digit_div_u_spec by auto | rewrite u64_rem_u_spec by auto
             | rewrite u128_div_u_spec by auto | rewrite u128_rem_u_spec by auto ];
    unfold spec_scalar_div, spec_scalar_rem, nz; apply omap_ite.
Qed.
Print Assumptions C14_scalar_udivrem_panics_iff.

(* BigInt: every rounding convention *)
Theorem C14_idiv_rem_panics_iff : forall x y, icanon x -> icanon y ->
  fails_iff (idiv_rem P x y) DivZero (ival y = 0) /\
  fails_iff (idiv P x y) DivZero (ival y = 0) /\
  fails_iff (irem P x y) DivZero (ival y = 0).
Proof.
  intros x y Cx Cy. repeat split; (eapply panics_iff_ite; [|apply eqb0_iff]).
  all: first [ rewrite idiv_rem_spec by auto using ok | rewrite idiv_spec by auto using ok
             | rewrite irem_spec by auto using ok ];
    unfold spec_idivrem, spec_idiv, spec_irem, nz; apply omap_ite.
Qed.
Print Assumptions C14_idiv_rem_panics_iff.

Theorem C14_idiv_floor_panics_iff : forall x y, icanon x -> icanon y ->
  fails_iff (idiv_floor P x y) DivZero (ival y = 0) /\
  fails_iff (imod_floor P x y) DivZero (ival y = 0) /\
  fails_iff (idiv_mod_floor P x y) DivZero (ival y = 0).
Proof.
  intros x y Cx Cy. repeat split; (eapply panics_iff_ite; [|apply eqb0_iff]).
  all: first [ rewrite idiv_floor_spec by auto using ok | rewrite imod_floor_spec by auto using ok
             | rewrite idiv_mod_floor_spec by auto using ok ];
    unfold spec_idiv_floor, spec_imod_floor, spec_idiv_mod_floor, nz; apply omap_ite.
Qed.
Print Assumptions C14_idiv_floor_panics_iff.

Theorem C14_idiv_euclid_panics_iff : forall x y, icanon x -> icanon y ->
  fails_iff (idiv_euclid P x y) DivZero (ival y = 0) /\
  fails_iff (irem_euclid P x y) DivZero (ival y = 0) /\
  fails_iff (idiv_rem_euclid P x y) DivZero (ival y = 0).
Proof.
  intros x y Cx Cy. repeat split; (eapply panics_iff_ite; [|apply eqb0_iff]).
  all: first [ rewrite idiv_euclid_spec by auto using ok | rewrite irem_euclid_spec by auto using ok
             | rewrite idiv_rem_euclid_spec by auto using ok ];
    unfold spec_div_euclid, spec_rem_euclid, spec_div_rem_euclid, nz; apply omap_ite.
Qed.
Print Assumptions C14_idiv_euclid_panics_iff.

Theorem C14_idiv_ceil_panics_iff : forall x y, icanon x -> icanon y ->
  fails_iff (idiv_ceil P x y) DivZero (ival y = 0).
Proof.
  intros x y Cx Cy. eapply panics_iff_ite; [|apply eqb0_iff].
  rewrite idiv_ceil_spec by auto using ok. unfold spec_idiv_ceil, nz; apply omap_ite.
Qed.
Print Assumptions C14_idiv_ceil_panics_iff.

(* every checked division variant of both types: never a panic, None exactly on a zero divisor *)
Theorem C14_checked_udiv_never_panics : forall a b, canon a -> canon b ->
  checked_iff (uchecked_div P a b) (val b = 0) /\
  checked_iff (uchecked_div_euclid P a b) (val b = 0) /\
  checked_iff (uchecked_rem_euclid P a b) (val b = 0) /\
  checked_iff (uchecked_div_rem_euclid P a b) (val b = 0).
Proof.
  intros a b Ca Cb. repeat split; (eapply checked_iff_ite; [|apply eqb0_iff]).
  all: first [ rewrite uchecked_div_spec by auto using ok | rewrite uchecked_div_euclid_spec by auto using ok
             | rewrite uchecked_rem_euclid_spec by auto using ok | rewrite uchecked_div_rem_euclid_spec by auto using ok ];
    unfold spec_uchecked_div, spec_uchecked_rem, spec_uchecked_divrem, chk; apply omap_chk.
Qed.
Print Assumptions C14_checked_udiv_never_panics.

Theorem C14_checked_idiv_never_panics : forall x y, icanon x -> icanon y ->
  checked_iff (ichecked_div P x y) (ival y = 0) /\
  checked_iff (ichecked_div_inherent P x y) (ival y = 0) /\
  checked_iff (ichecked_div_euclid P x y) (ival y = 0) /\
  checked_iff (ichecked_rem_euclid P x y) (ival y = 0) /\
  checked_iff (ichecked_div_rem_euclid P x y) (ival y = 0).
Proof.
  intros x y Cx Cy. repeat split; (eapply checked_iff_ite; [|apply eqb0_iff]).
  all: first [ rewrite ichecked_div_spec by auto using ok | rewrite ichecked_div_inherent_spec by auto using ok
             | rewrite ichecked_div_euclid_spec by auto using ok | rewrite ichecked_rem_euclid_spec by auto using ok
             | rewrite ichecked_div_rem_euclid_spec by auto using ok ];
    unfold spec_ichecked_div, spec_ichecked_div_euclid, spec_ichecked_rem_euclid, spec_ichecked_div_rem_euclid, chk;
    apply omap_chk.
Qed.
Print Assumptions C14_checked_idiv_never_panics.

(** * C07 — shifts: NegShift exactly on a negative amount; logic operators never panic *)
(* `<<` has a second failure: a result that cannot even be requested from the allocator
   (>= 2^60 digits) is the "capacity overflow" panic of `Vec` (SpecBits.spec_shl) *)
Theorem C14_ushl_panics_iff : forall a s, canon a ->
  (biguint_shl a s = Panic NegShift <-> s < 0) /\
  (biguint_shl a s = Panic MemOverflow <->
     0 <= s /\ val a <> 0 /\ 0 < s / 64 /\ 2 ^ 60 <= s / 64 + (zdigits (val a) + 1)) /\
  (0 <= s -> ~ (val a <> 0 /\ 0 < s / 64 /\ 2 ^ 60 <= s / 64 + (zdigits (val a) + 1)) ->
   exists r, biguint_shl a s = Ret r).
Proof.
  intros a s Ca. rewrite biguint_shl_spec by auto. unfold spec_shl, too_big.
  destruct (Z.ltb_spec s 0); [cbn; repeat split; intros; try discriminate; try lia|].
  destruct (Z.eqb_spec (val a) 0); [cbn; repeat split; intros; try discriminate; try lia; eexists; reflexivity|].
  destruct (Z.ltb_spec 0 (s / 64)); destruct (Z.leb_spec (2 ^ 60) (s / 64 + (zdigits (val a) + 1))); cbn;
    repeat split; intros; try discriminate; try lia; try tauto; eexists; reflexivity.
Qed.
Print Assumptions C14_ushl_panics_iff.

Theorem C14_ishl_panics_iff : forall x s, icanon x ->
  (ishl x s = Panic NegShift <-> s < 0) /\
  (ishl x s = Panic MemOverflow <->
     0 <= s /\ ival x <> 0 /\ 0 < s / 64 /\ 2 ^ 60 <= s / 64 + (zdigits (ival x) + 1)) /\
  (0 <= s -> ~ (ival x <> 0 /\ 0 < s / 64 /\ 2 ^ 60 <= s / 64 + (zdigits (ival x) + 1)) ->
   exists r, ishl x s = Ret r) /\
  ishl_assign x s = ishl x s.
Proof.
  intros x s Cx. rewrite ishl_assign_spec, ishl_spec by auto. split; [|split; [|split; [|reflexivity]]];
  unfold spec_shl, too_big;
  (destruct (Z.ltb_spec s 0); [cbn; repeat split; intros; try discriminate; try lia|]);
  (destruct (Z.eqb_spec (ival x) 0); [cbn; repeat split; intros; try discriminate; try lia; try (eexists; reflexivity)|]);
  destruct (Z.ltb_spec 0 (s / 64)); destruct (Z.leb_spec (2 ^ 60) (s / 64 + (zdigits (ival x) + 1))); cbn;
    repeat split; intros; try discriminate; try lia; try tauto; try (eexists; reflexivity).
Qed.
Print Assumptions C14_ishl_panics_iff.

Theorem C14_shr_panics_iff :
  (forall a s, canon a -> vec_ok a -> fails_iff (biguint_shr a s) NegShift (s < 0)) /\
  (forall x s, icanon x -> vec_ok (mag x) ->
     fails_iff (ishr bits addsub x s) NegShift (s < 0) /\ fails_iff (ishr_assign bits addsub x s) NegShift (s < 0)).
Proof.
  split; [intros a s Ca Va | intros x s Cx Vx; split]; (eapply panics_iff_ite; [|apply ltb0_iff]).
  - rewrite biguint_shr_spec by auto. unfold spec_shr. apply omap_ite.
  - rewrite ishr_spec by auto using bits_params_ok, addsub_params_ok. unfold spec_shr. apply omap_ite.
  - rewrite ishr_assign_spec by auto using bits_params_ok, addsub_params_ok. unfold spec_shr. apply omap_ite.
Qed.
Print Assumptions C14_shr_panics_iff.

Theorem C14_logic_never_panics : forall x y, icanon x -> icanon y ->
  total (iand bits x y) /\ total (iand_assign x y) /\ total (ior bits x y) /\ total (ior_assign bits x y) /\
  total (ixor bits x y) /\ total (ixor_assign bits x y) /\ total (inot addsub x) /\ total (inot_ref addsub x).
Proof.
  intros x y Cx Cy. pose proof bits_params_ok as Hb. pose proof addsub_params_ok as Ha.
  repeat split; eapply ret_never_panics;
    [apply iand_spec|apply iand_assign_spec|apply ior_spec|apply ior_assign_spec|apply ixor_spec|apply ixor_assign_spec
    |rewrite inot_spec by auto; reflexivity|rewrite inot_ref_spec by auto; reflexivity]; auto.
Qed.
Print Assumptions C14_logic_never_panics.

Theorem C14_bit_ops_never_panic :
  (forall a i v, canon a -> 0 <= i < B -> total (uset_bit bits a i v)) /\
  (forall x i v, icanon x -> vec_ok (mag x) -> 0 <= i < B -> total (iset_bit bits x i v)) /\
  (forall x i, icanon x -> 0 <= i -> total (ibit bits x i)).
Proof.
  pose proof bits_params_ok as Hb. split; [|split]; intros.
  - rewrite uset_bit_spec by auto. eexists; reflexivity.
  - rewrite iset_bit_spec by auto. eexists; reflexivity.
  - rewrite ibit_spec by auto. eexists; reflexivity.
Qed.
Print Assumptions C14_bit_ops_never_panic.
