(* C08 — primitive integer and float conversions are exact or correctly rounded. *)
From BigNum Require Import Base BaseLemmas Prim SpecPrim PrimProofs Extracted InstPrim.
Open Scope Z_scope.

Example C08_nonvacuous :
  canonb [5; 0; 12514517616949633024] = true /\
  uto_f64 prim [5; 0; 12514517616949633024] = Ret (spec_to_float 53 11 (val [5; 0; 12514517616949633024])).
Proof. split; vm_compute; reflexivity. Qed.
