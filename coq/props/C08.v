(* C08 — primitive integer and float conversions are exact or correctly rounded.
   Statements only; proofs live in proofs/PrimProofs*.v (generic in the decision points
   extracted from src/{biguint,bigint}/convert.rs under [prim_ok]) and are instantiated at the
   parameters of /repo's current source ([Extracted.prim], [InstPrim.prim_params_ok]).
   Floats are IEEE-754 bit patterns in Z (the harness prints the same patterns). *)
From Coq Require Import Reals.
From Flocq Require Import Core Round_odd.
From BigNum Require Import Base BaseLemmas ShiftCore AddSub Prim SpecPrim
  PrimProofsCast PrimProofs PrimProofsFloat PrimProofsToFloat PrimProofsFromFloat PrimFlocq Extracted InstPrim.
Open Scope Z_scope.

(** ** big -> primitive integer: Some x exactly when x fits, all twelve types, MIN edges included *)
Theorem C08_to_prim_spec_biguint : forall t v, canon v ->
  uto prim t v = Ret (spec_to_int (pt_signed t) (pt_bits t) (val v)).
Proof. intros; apply uto_spec; auto using prim_params_ok. Qed.
Print Assumptions C08_to_prim_spec_biguint.

Theorem C08_to_prim_spec_bigint : forall t x, icanon x ->
  ito prim t x = Ret (spec_to_int (pt_signed t) (pt_bits t) (ival x)).
Proof. intros; apply ito_spec; auto using prim_params_ok. Qed.
Print Assumptions C08_to_prim_spec_bigint.

(** TryFrom<BigUint>/TryFrom<BigInt> for T: same decision, the error carries the original back *)
Theorem C08_tryfrom_err_returns_original_biguint : forall t v, canon v ->
  utry_into_owned prim t v =
  Ret (match spec_to_int (pt_signed t) (pt_bits t) (val v) with Some x => inl x | None => inr v end).
Proof. intros; apply utry_into_owned_spec; auto using prim_params_ok. Qed.
Print Assumptions C08_tryfrom_err_returns_original_biguint.

Theorem C08_tryfrom_err_returns_original_bigint : forall t x, icanon x ->
  itry_into_owned prim t x =
  Ret (match spec_to_int (pt_signed t) (pt_bits t) (ival x) with Some y => inl y | None => inr x end).
Proof. intros; apply itry_into_owned_spec; auto using prim_params_ok. Qed.
Print Assumptions C08_tryfrom_err_returns_original_bigint.

Theorem C08_tryfrom_bigint_for_biguint : forall x, icanon x ->
  ito_biguint x = option_map enc (spec_ufrom_int (ival x)) /\
  itry_into_biguint_owned x =
    match spec_ufrom_int (ival x) with Some r => inl (enc r) | None => inr x end.
Proof. intros; split; [apply ito_biguint_spec|apply itry_into_biguint_owned_spec]; assumption. Qed.
Print Assumptions C08_tryfrom_bigint_for_biguint.

(** ** primitive integer -> big: value preserved; negative into BigUint fails *)
Theorem C08_from_prim_spec_biguint : forall t n, in_range t n ->
  ufrom_prim t n = Ret (option_map enc (spec_ufrom_int n)) /\
  (pt_signed t = false -> ufrom t n = Ret (enc n)).
Proof. intros; split; [apply ufrom_prim_spec|intros; apply ufrom_spec]; assumption. Qed.
Print Assumptions C08_from_prim_spec_biguint.

Theorem C08_from_prim_spec_bigint : forall t n, in_range t n ->
  ifrom t n = Ret (ienc n) /\ ifrom_prim t n = Ret (Some (ienc n)).
Proof. intros; split; [apply ifrom_spec|apply ifrom_prim_spec]; assumption. Qed.
Print Assumptions C08_from_prim_spec_bigint.

Theorem C08_biguint_to_bigint : forall v, canon v -> ifrom_biguint v = ienc (val v).
Proof. exact ifrom_biguint_spec. Qed.
Print Assumptions C08_biguint_to_bigint.

(** ** floats *)
(** the 64-bit summary handed to the hardware cast is the round-to-odd of the value: top 64
    bits, least significant one or-ed with "any lower bit set" (ALL lower bits — defect D6) *)
Theorem C08_high_bits_spec : forall v, canon v ->
  high_bits_to_u64 prim v = Ret (rodd 64 (val v)).
Proof. intros; apply high_bits_spec; auto using prim_params_ok. Qed.
Print Assumptions C08_high_bits_spec.

(** nearest-even rounding to p bits of the k-bit round-to-odd summary = nearest-even rounding
    of the number itself, for k >= p + 2 (k = 64; p = 53, 24) *)
Theorem C08_rne_of_odd : forall p n, (p = 53 \/ p = 24) -> 64 < blen n ->
  rne p n = (fst (rne p (rodd 64 n)), snd (rne p (rodd 64 n)) + (blen n - 64)).
Proof. intros p n [-> | ->] H; apply rne_of_odd; lia. Qed.
Print Assumptions C08_rne_of_odd.

(** to_f64 / to_f32: nearest representable, ties to even; +inf when the rounded value is
    >= 2^1024 / 2^128 ([spec_to_float]); BigInt: sign bit + the same magnitude *)
Theorem C08_to_f64 : forall v, canon v -> uto_f64 prim v = Ret (spec_to_float 53 11 (val v)).
Proof. intros; apply uto_f64_spec; auto using prim_params_ok. Qed.
Print Assumptions C08_to_f64.

Theorem C08_to_f32 : forall v, canon v -> uto_f32 prim v = Ret (spec_to_float 24 8 (val v)).
Proof. intros; apply uto_f32_spec; auto using prim_params_ok. Qed.
Print Assumptions C08_to_f32.

Theorem C08_to_f64_bigint : forall x, icanon x -> ito_f64 prim x = Ret (spec_ito_float 53 11 (ival x)).
Proof. intros; apply ito_f64_spec; auto using prim_params_ok. Qed.
Print Assumptions C08_to_f64_bigint.

Theorem C08_to_f32_bigint : forall x, icanon x -> ito_f32 prim x = Ret (spec_ito_float 24 8 (ival x)).
Proof. intros; apply ito_f32_spec; auto using prim_params_ok. Qed.
Print Assumptions C08_to_f32_bigint.

(** from_f64 / from_f32 (bit patterns): the float truncated toward zero; None for NaN and
    +-inf; into BigUint also None when the truncated value is negative (-0.5 gives 0) *)
Theorem C08_from_f64_spec : forall b, 0 <= b < 2 ^ 64 ->
  ufrom_f64 b = Ret (option_map enc (spec_ufrom_float 53 11 b)) /\
  ifrom_f64 b = Ret (option_map ienc (spec_ifrom_float 53 11 b)).
Proof. intros; split; [apply ufrom_f64_spec|apply ifrom_f64_spec]; assumption. Qed.
Print Assumptions C08_from_f64_spec.

Theorem C08_from_f32_spec : forall g, 0 <= g < 2 ^ 32 ->
  ufrom_f32 g = Ret (option_map enc (spec_ufrom_float 24 8 g)) /\
  ifrom_f32 g = Ret (option_map ienc (spec_ifrom_float 24 8 g)).
Proof. intros; split; [apply ufrom_f32_spec|apply ifrom_f32_spec]; assumption. Qed.
Print Assumptions C08_from_f32_spec.

(** ** the Z-level rounding definitions are Flocq's (radix 2, unbounded exponent, precision p).
    ONLY these two statements depend on the classical axioms of the real numbers
    (sig_forall_dec, sig_not_dec, functional_extensionality_dep, classic — through Coq's Reals
    and Flocq); every theorem above is closed under the global context. *)
Theorem C08_rne_is_flocq_nearest_even : forall p n, (p = 53 \/ p = 24) -> 0 <= n ->
  IZR (rne_val p n) = round radix2 (FLX_exp p) ZnearestE (IZR n).
Proof. intros p n [-> | ->] H; apply rne_flocq; lia. Qed.
Print Assumptions C08_rne_is_flocq_nearest_even.

Theorem C08_rodd_is_flocq_round_odd : forall n, 0 <= n ->
  IZR (rodd 64 n * 2 ^ Z.max 0 (blen n - 64)) = round radix2 (FLX_exp 64) Zrnd_odd (IZR n).
Proof. intros n H; apply rodd_flocq; lia. Qed.
Print Assumptions C08_rodd_is_flocq_round_odd.

(* Non-vacuity: a canonical three-digit value whose deciding sticky bit sits in the lowest
   digit (the D6 pattern); i128::MIN through the BigInt edge; a failing TryFrom. *)
Example C08_nonvacuous :
  canonb [5; 0; 12514517616949633024] = true /\
  uto_f64 prim [5; 0; 12514517616949633024] = Ret 5468976952305562836 /\
  spec_to_float 53 11 (val [5; 0; 12514517616949633024]) = 5468976952305562836 /\
  canonb [0; 9223372036854775808] = true /\
  ito prim I128 (mkint Minus [0; 9223372036854775808]) = Ret (Some (- 2 ^ 127)) /\
  utry_into_owned prim U64 [0; 1] = Ret (inr [0; 1]).
Proof. repeat split; vm_compute; reflexivity. Qed.
