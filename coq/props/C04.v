(* C04 — equal integers are indistinguishable: Eq, Ord, Hash and exports follow the value; every
   value reachable by any history of public operations is canonical.
   Statements only; proofs are in proofs/HistProofs.v (generic in the source-extracted parameters
   of the owning areas) and instantiated here at the current source (inst/InstHist.v).

   The machine (model/Hist.v): an object [OU digits | OI bigint] is created by any constructor
   [ctor] from arbitrary input (redundant high zero words, padding bytes, sign/magnitude
   mismatch, serde tokens, radix digit strings with leading zeros) and mutated in place by any finite list of [op]
   (+= -= *= /= %= &= |= ^= <<= >>= with big and scalar operands, set_bit, set_zero, set_one,
   clone_from, assign_from_slice, neg, not, abs, signum, div_floor/mod_floor/div_euclid/
   rem_euclid/div_ceil, pow, sqrt, cbrt, nth_root, gcd, lcm); [step] CALLS the model of the
   area that owns the operation.  [ctor_wf]/[op_wf] only say that the inputs are what their Rust
   types can hold (u64 digits, u32 words, bytes, scalars of their width, u64 bit indices, u32
   exponents).  [fits] = fewer than 2^58 digits (a 64-bit address space holds no longer vector;
   the history stops with MemOverflow there).
   [= Ret ...] includes: no debug assertion of eq / cmp / hash fires, no internal panic.

   Operations that multiply (`*=`, pow, cbrt, nth_root, lcm) and the text of values of 64 digits
   and more go through the kernels `scalar_mul` and `mul3`; their exactness is property C02
   (MulProofs3.scalar_mul_spec, MulProofs5.mul3_spec), applied in inst/InstHist.v
   ([mul_statements_hold], [ops_ok_of_wf], [text_ok_holds]).  No theorem below is relative to
   anything but [ctor_wf] / [op_wf] / canonicity. *)
From BigNum Require Import Base BaseLemmas AddSub Div Bits Sign Mul SpecBits SpecBytes Hist SpecHist HistProofs
  Extracted InstHist InstSign.
From Coq Require Import Sorting.Permutation Sorting.Sorted.
Open Scope Z_scope.

Local Notation P := hist_extracted.
Local Notation ok := hist_params_ok.

(** ** one operation: the result is the canonical object of the Z-level result (panics agree) *)
Theorem C04_step_spec : forall s o, ocanon s -> fits s = true -> op_wf o ->
  step P s o = omap (oenc (okind s)) (sstep (okind s) (oval s) o).
Proof. intros; apply step_spec; auto using ok, op_ok_of_wf. Qed.
Print Assumptions C04_step_spec.

(** the invariant "no high zero digit, NoSign iff zero" survives every operation *)
Theorem C04_step_canon : forall s o s', ocanon s -> fits s = true -> op_wf o ->
  step P s o = Ret s' -> ocanon s' /\ okind s' = okind s.
Proof. intros; eapply step_canon; eauto using ok, op_ok_of_wf. Qed.
Print Assumptions C04_step_canon.

(** ** every constructor yields the canonical object of the value its input denotes *)
Theorem C04_construct_spec : forall c, ctor_wf c ->
  construct P c = Ret (oenc (fst (sconstruct c)) (snd (sconstruct c))).
Proof. exact (construct_spec P ok). Qed.
Print Assumptions C04_construct_spec.

(** ** reachability: by induction over the history *)
Theorem C04_reachable_canon : forall c ops s0 s, ctor_wf c -> Forall op_wf ops ->
  start P c = Ret s0 -> run P s0 ops = Ret s -> ocanon s.
Proof.
  intros c ops s0 s Hc Hw E0 E.
  exact (reachable_canon P ok c ops s0 s Hc (ops_ok_of_wf _ Hw) E0 E).
Qed.
Print Assumptions C04_reachable_canon.

(** a whole history computes the canonical object of what the same history computes on
    integers, and stops (panics) exactly where that one does; the same for every intermediate
    object (what the correspondence run prints) *)
Theorem C04_history_spec : forall c ops, ctor_wf c -> Forall op_wf ops ->
  history P c ops = omap (oenc (fst (shistory c ops))) (snd (shistory c ops)).
Proof. intros; apply history_spec; auto using ok, ops_ok_of_wf. Qed.
Print Assumptions C04_history_spec.

Theorem C04_history_trace_spec : forall c ops, ctor_wf c -> Forall op_wf ops ->
  history_trace P c ops = map (omap (oenc (fst (shistory_trace c ops)))) (snd (shistory_trace c ops)).
Proof. intros; apply history_trace_spec; auto using ok, ops_ok_of_wf. Qed.
Print Assumptions C04_history_trace_spec.

(** ** Eq is numeric equality, Ord is numeric order (canonical operands of any length) *)
Theorem C04_ueq_iff : forall a b, canon a -> canon b ->
  exists e, ueq a b = Ret e /\ (e = true <-> val a = val b).
Proof. exact ueq_iff. Qed.
Print Assumptions C04_ueq_iff.

Theorem C04_ieq_iff : forall x y, icanon x -> icanon y ->
  exists e, ieq x y = Ret e /\ (e = true <-> ival x = ival y).
Proof. exact ieq_iff. Qed.
Print Assumptions C04_ieq_iff.

Theorem C04_cmp : forall a b, ocanon a -> ocanon b -> okind a = okind b ->
  ocmp Extracted.signs a b = Ret (oval a ?= oval b).
Proof. exact (fun a b => ocmp_spec Extracted.signs a b sign_params_ok). Qed.
Print Assumptions C04_cmp.

Theorem C04_max_min : forall a b, ocanon a -> ocanon b -> okind a = okind b ->
  (exists m, omax Extracted.signs a b = Ret m /\ (m = a \/ m = b) /\ oval m = Z.max (oval a) (oval b)) /\
  (exists m, omin Extracted.signs a b = Ret m /\ (m = a \/ m = b) /\ oval m = Z.min (oval a) (oval b)).
Proof. intros; split; [apply omax_spec|apply omin_spec]; auto using sign_params_ok. Qed.
Print Assumptions C04_max_min.

(** sorting with [cmp] yields a permutation in numeric order *)
Theorem C04_sort : forall k l, Forall (fun s => ocanon s /\ okind s = k) l ->
  exists r, osort Extracted.signs l = Ret r /\ Permutation l r /\ StronglySorted (fun a b => oval a <= oval b) r.
Proof. exact (fun k l => osort_spec Extracted.signs k l sign_params_ok). Qed.
Print Assumptions C04_sort.

(** ** Hash: the word stream fed to the hasher is a function of the integer, and an injective one *)
Theorem C04_hash_fun : forall a b, ocanon a -> ocanon b -> okind a = okind b -> oval a = oval b ->
  hash_stream a = hash_stream b.
Proof. exact hash_fun. Qed.
Print Assumptions C04_hash_fun.

Theorem C04_hash_inj : forall a b, ocanon a -> ocanon b -> okind a = okind b ->
  hash_stream a = hash_stream b -> oval a = oval b.
Proof. exact hash_inj. Qed.
Print Assumptions C04_hash_inj.

(** ** a BigInt reports NoSign exactly when its value is zero *)
Theorem C04_nosign_iff_zero : forall x, icanon x -> (sg x = NoSign <-> ival x = 0).
Proof. exact nosign_iff_zero. Qed.
Print Assumptions C04_nosign_iff_zero.

(** ** every export (u32/u64 digits, bytes, signed bytes, bits, count_ones, trailing_zeros,
       decimal and hex text) is a function of the integer alone *)
Theorem C04_export_spec : forall e s, ocanon s -> In e (exports_for s) ->
  export_of P e s = sexport (okind s) e (oval s).
Proof. intros; apply export_spec; auto using ok, text_ok_holds. Qed.
Print Assumptions C04_export_spec.

Theorem C04_export_fun : forall e a b, ocanon a -> ocanon b -> okind a = okind b -> oval a = oval b ->
  export_of P e a = export_of P e b.
Proof. intros; apply export_fun; auto. Qed.
Print Assumptions C04_export_fun.

(** ** the property: two histories (any constructor, any operations, each returning) that reach
       the same integer yield the SAME object — hence `==`, `cmp = Equal`, the same hash stream,
       the same exports — and on any two reachable objects of one type `==`, `cmp`, `max`, `min`
       are what the integers dictate; NoSign (an empty BigUint) exactly for zero. *)
Theorem C04_indistinguishable : forall ca opsa cb opsb a b,
  ctor_wf ca -> Forall op_wf opsa -> ctor_wf cb -> Forall op_wf opsb ->
  history P ca opsa = Ret a -> history P cb opsb = Ret b -> okind a = okind b ->
  (oval a = oval b -> a = b) /\
  oeq a b = Ret (oval a =? oval b) /\
  ocmp Extracted.signs a b = Ret (oval a ?= oval b) /\
  (oval a = oval b -> hash_stream a = hash_stream b) /\
  (hash_stream a = hash_stream b -> oval a = oval b) /\
  (forall e, In e (exports_for a) -> export_of P e a = sexport (okind a) e (oval a)) /\
  (forall e, oval a = oval b -> export_of P e a = export_of P e b) /\
  (exists m, omax Extracted.signs a b = Ret m /\ (m = a \/ m = b) /\ oval m = Z.max (oval a) (oval b)) /\
  (exists m, omin Extracted.signs a b = Ret m /\ (m = a \/ m = b) /\ oval m = Z.min (oval a) (oval b)) /\
  (osign a = NoSign <-> oval a = 0).
Proof.
  intros ca opsa cb opsb a b Hca Hwa Hcb Hwb Ea Eb K.
  destruct (indistinguishable P ok ca opsa cb opsb a b Hca (ops_ok_of_wf _ Hwa) Hcb (ops_ok_of_wf _ Hwb) Ea Eb K)
    as (H1 & H2 & H3 & H4 & H5 & H6 & H7 & H8 & H9 & H10).
  split; [exact H1|]. split; [exact H2|]. split; [exact H3|]. split; [exact H4|]. split; [exact H5|].
  split; [intros e He; apply H6; [exact He|intros _; apply text_ok_holds]|].
  split; [exact H7|]. split; [exact H8|]. split; [exact H9|exact H10].
Qed.
Print Assumptions C04_indistinguishable.

(** Non-vacuity: the machine on concrete histories.
   A BigInt built from an inconsistent request (Minus, magnitude with two redundant zero
   digits), grown by <<= 200, then reduced to zero by `-=` has NoSign and no digits; a BigUint
   reached through ((x << 70) + y) >> 70, and one reached through x * y / y, are the object
   built directly from u32 words with zero padding. *)
Example C04_nonvacuous :
  history P (CIParts Minus [5; 0; 0]) [OShl 200; OSub (OI (mkint Minus [0; 0; 0; 1280]))] = Ret (OI (mkint NoSign [])) /\
  history P (CUVec [7; 9; 0]) [OShl 70; OAdd (OU [12345]); OShr 70] = Ret (OU [7; 9]) /\
  history P (CUVec [7; 9]) [OMul (OU [3; 5; 0]); ODiv (OU [3; 5])] = Ret (OU [7; 9]) /\
  history P (CUNew [7; 0; 9; 0; 0; 0; 0]) [] = Ret (OU [7; 9]) /\
  canonb [7; 9] = true.
Proof. repeat split; vm_compute; reflexivity. Qed.

(* Every function that normalises its result in the reviewed baseline (tools/norm_baseline.json)
   still contains at least as many normalize()/normalized()/biguint_from_vec/from_biguint calls
   (list regenerated from /repo on every run): a dropped normalisation breaks this by name. *)
From BigNum Require Import Cfg.
Theorem C04_norm_sites_present : forallb norm_ok norm_sites = true.
Proof. vm_compute. reflexivity. Qed.
Print Assumptions C04_norm_sites_present.

(* ---- added by the API audit (docs/API_COVERAGE.md) --------------------------------------------------
   ways of obtaining / comparing values that the machine above did not have: the comparison OPERATORS
   (partial_cmp, <, <=, >, >=, !=), text constructors (from_str_radix, parse_bytes), From<primitive>,
   arbitrary::Arbitrary (any byte string), and BigInt `op= primitive scalar` steps. *)
From BigNum Require Import Prim PrimProofs BytesLemmas ExtraOrd ExtraOrdProofs ExtraHist SpecExtra ExtraHistProofs.

(** partial_cmp and the four operators agree with numerical order (no debug assertion fires); `!=` is
    the negation of `==` *)
Theorem C04_operators_u : forall a b, canon a -> canon b ->
  uord a b = Ret (zord (val a) (val b)) /\ une a b = Ret (negb (val a =? val b)).
Proof. intros; split; [apply uord_spec|apply une_spec]; auto. Qed.
Print Assumptions C04_operators_u.
Theorem C04_operators_i : forall x y, icanon x -> icanon y ->
  iord Extracted.signs x y = Ret (zord (ival x) (ival y)) /\ ine x y = Ret (negb (ival x =? ival y)).
Proof. intros; split; [apply iord_spec|apply ine_spec]; auto using sign_params_ok. Qed.
Print Assumptions C04_operators_i.

(** arbitrary::Arbitrary on ANY byte string: the canonical value of the decoded digit vector
    (high zero digits stripped; a zero magnitude gives NoSign whatever sign byte was drawn) *)
Theorem C04_arbitrary_canon : forall b, inb 256 b ->
  fst (arb_biguint b) = enc (arb_val b) /\ canon (fst (arb_biguint b)) /\
  fst (arb_bigint b) = ienc (arb_ival b) /\ icanon (fst (arb_bigint b)).
Proof.
  intros b Hb. split; [apply arb_biguint_spec; exact Hb|]. split; [apply arb_biguint_canon; exact Hb|].
  split; [apply arb_bigint_spec; exact Hb|apply arb_bigint_canon; exact Hb].
Qed.
Print Assumptions C04_arbitrary_canon.

(** every extended constructor yields the canonical object of the value its input denotes
    (or fails exactly where the Z-level reading fails) *)
Theorem C04_xconstruct_spec : forall c, xctor_wf c ->
  xconstruct P c = omap (oenc (fst (sxconstruct c))) (snd (sxconstruct c)).
Proof. exact xconstruct_spec. Qed.
Print Assumptions C04_xconstruct_spec.

(** a whole extended history (any such constructor, then any mix of the operations above and
    BigInt `op= scalar` steps) shows, after every step, the canonical object of what the same history
    computes on integers; in particular every object it shows is canonical *)
Theorem C04_xhistory_trace_spec : forall c ops, xctor_wf c -> Forall xop_wf ops ->
  xhistory_trace P c ops = map (omap (oenc (fst (sxhistory_trace c ops)))) (snd (sxhistory_trace c ops)).
Proof. exact xhistory_trace_spec. Qed.
Print Assumptions C04_xhistory_trace_spec.
Theorem C04_xhistory_canon : forall c ops s, xctor_wf c -> Forall xop_wf ops ->
  In (Ret s) (xhistory_trace P c ops) -> ocanon s.
Proof. exact xhistory_trace_canon. Qed.
Print Assumptions C04_xhistory_canon.

Example C04_audit_nonvacuous :
  (* "-0_12" radix 10, then += i8 -5, *= u64 2^63 twice: a two-digit negative value *)
  xhistory_trace P (XIStr [45; 48; 95; 49; 50] 10) [XIScalar SAdd I8 (-5); XIScalar SMul U64 (2 ^ 63); XIScalar SMul U64 (2 ^ 63)]
    = [Ret (OI (mkint Minus [12])); Ret (OI (mkint Minus [17])); Ret (OI (mkint Minus [9223372036854775808; 8]));
       Ret (OI (mkint Minus [0; 4611686018427387904; 4]))] /\
  (* arbitrary: two digits + a high zero digit, Minus sign byte *)
  fst (arb_bigint ([0; 1; 7;0;0;0;0;0;0;0; 1; 9;0;0;0;0;0;0;0; 1; 0;0;0;0;0;0;0;0])) = mkint Minus [7; 9].
Proof. split; vm_compute; reflexivity. Qed.

(** two extended histories (any of the old or new constructors, any operations): equal integers are
    the SAME object, so `==`, cmp, the hashed word stream and every export coincide
    (C04_ueq_iff / C04_cmp / C04_hash_fun / C04_export_fun apply to them verbatim) *)
Theorem C04_xindistinguishable : forall ca opsa cb opsb a b,
  xctor_wf ca -> Forall xop_wf opsa -> xctor_wf cb -> Forall xop_wf opsb ->
  xhistory P ca opsa = Ret a -> xhistory P cb opsb = Ret b ->
  okind a = okind b -> oval a = oval b ->
  a = b /\ ocanon a.
Proof.
  intros ca opsa cb opsb a b Wa Oa Wb Ob Ea Eb K V. split.
  - exact (xindistinguishable ca opsa cb opsb a b Wa Oa Wb Ob Ea Eb K V).
  - exact (xhistory_canon ca opsa a Wa Oa Ea).
Qed.
Print Assumptions C04_xindistinguishable.
