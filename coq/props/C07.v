(* C07 — placeholder while the pipeline is brought up *)
From BigNum Require Import Base BaseLemmas X86 AddSub ShiftCore Bits SpecBits Extracted.
Open Scope Z_scope.
Example C07_nonvacuous : canonb [0; 1] = true /\ biguint_shl [0; 1] 65 = Ret [0; 0; 2].
Proof. split; vm_compute; reflexivity. Qed.
