(* C07 — bitwise logic, shifts and bit queries follow infinite two's-complement semantics.
   Statements only; proofs live in proofs/ShiftCoreProofs.v, BitsLemmas.v, BitsProofsU.v,
   BitsProofsTC.v, BitsProofsI.v, BitsProofsSNB.v (generic in the source-extracted decision points) and are
   instantiated at the parameters extracted from /repo's current source.
   [vec_ok l] = fewer than 2^58 digits (a 64-bit address space holds no longer vector). *)
From BigNum Require Import Base BaseLemmas X86 AddSub AddSubProofs ShiftCore ShiftCoreProofs
  Bits SpecBits BitsLemmas BitsProofsU BitsProofsTC BitsProofsI BitsProofsSNB Extracted InstAddSub InstBits.
Open Scope Z_scope.

(** * BigUint & | ^ (ref-ref and val-ref/assign forms) *)
Theorem C07_uand : forall a b, canon a -> canon b ->
  Ret (uand bits a b) = omap enc (spec_and (val a) (val b)).
Proof. intros a b [Ha _] [Hb _]. cbn [omap bind spec_and spec_or spec_xor]. f_equal. apply uand_spec; auto using bits_params_ok. Qed.
Print Assumptions C07_uand.
Theorem C07_uand_assign : forall a b, canon a -> canon b ->
  Ret (uand_assign a b) = omap enc (spec_and (val a) (val b)).
Proof. intros a b [Ha _] [Hb _]. cbn [omap bind spec_and spec_or spec_xor]. f_equal. apply uand_assign_spec; auto. Qed.
Print Assumptions C07_uand_assign.
Theorem C07_uor : forall a b, canon a -> canon b ->
  Ret (uor bits a b) = omap enc (spec_or (val a) (val b)).
Proof. intros. cbn [omap bind spec_and spec_or spec_xor]. f_equal. apply uor_spec; auto using bits_params_ok. Qed.
Print Assumptions C07_uor.
Theorem C07_uor_assign : forall a b, canon a -> canon b ->
  Ret (uor_assign bits a b) = omap enc (spec_or (val a) (val b)).
Proof. intros. cbn [omap bind spec_and spec_or spec_xor]. f_equal. apply uor_assign_spec; auto using bits_params_ok. Qed.
Print Assumptions C07_uor_assign.
Theorem C07_uxor : forall a b, canon a -> canon b ->
  Ret (uxor bits a b) = omap enc (spec_xor (val a) (val b)).
Proof. intros a b [Ha _] [Hb _]. cbn [omap bind spec_and spec_or spec_xor]. f_equal. apply uxor_spec; auto using bits_params_ok. Qed.
Print Assumptions C07_uxor.
Theorem C07_uxor_assign : forall a b, canon a -> canon b ->
  Ret (uxor_assign bits a b) = omap enc (spec_xor (val a) (val b)).
Proof. intros a b [Ha _] [Hb _]. cbn [omap bind spec_and spec_or spec_xor]. f_equal. apply uxor_assign_spec; auto using bits_params_ok. Qed.
Print Assumptions C07_uxor_assign.

(** * BigInt & | ^ : all nine sign pairs, any two lengths *)
Theorem C07_and : forall x y, icanon x -> icanon y ->
  iand bits x y = omap ienc (spec_and (ival x) (ival y)).
Proof. intros. apply iand_spec; auto using bits_params_ok. Qed.
Print Assumptions C07_and.
Theorem C07_and_assign : forall x y, icanon x -> icanon y ->
  iand_assign x y = omap ienc (spec_and (ival x) (ival y)).
Proof. intros. apply iand_assign_spec; auto. Qed.
Print Assumptions C07_and_assign.
Theorem C07_or : forall x y, icanon x -> icanon y ->
  ior bits x y = omap ienc (spec_or (ival x) (ival y)).
Proof. intros. apply ior_spec; auto using bits_params_ok. Qed.
Print Assumptions C07_or.
Theorem C07_or_assign : forall x y, icanon x -> icanon y ->
  ior_assign bits x y = omap ienc (spec_or (ival x) (ival y)).
Proof. intros. apply ior_assign_spec; auto using bits_params_ok. Qed.
Print Assumptions C07_or_assign.
Theorem C07_xor : forall x y, icanon x -> icanon y ->
  ixor bits x y = omap ienc (spec_xor (ival x) (ival y)).
Proof. intros. apply ixor_spec; auto using bits_params_ok. Qed.
Print Assumptions C07_xor.
Theorem C07_xor_assign : forall x y, icanon x -> icanon y ->
  ixor_assign bits x y = omap ienc (spec_xor (ival x) (ival y)).
Proof. intros. apply ixor_assign_spec; auto using bits_params_ok. Qed.
Print Assumptions C07_xor_assign.

(** the key lemma behind the nine routines: one pass of `negate_carry` with carry-in 1 over the
    first k digits yields the low k digits of the negated value, and the carry survives iff all
    k digits were zero *)
Theorem C07_two_compl_prefix : forall l, wf l ->
  match neg_digits 1 l with (o, c') =>
    val o = (- val l) mod B ^ Z.of_nat (length l) /\ (c' = 1 <-> val l = 0) end.
Proof. exact two_compl_prefix_neg. Qed.
Print Assumptions C07_two_compl_prefix.

(** * Not (by value and by reference) *)
Theorem C07_not : forall x, icanon x -> inot addsub x = omap ienc (spec_not (ival x)).
Proof. intros. apply inot_spec; auto using addsub_params_ok. Qed.
Print Assumptions C07_not.
Theorem C07_not_ref : forall x, icanon x -> inot_ref addsub x = omap ienc (spec_not (ival x)).
Proof. intros. apply inot_ref_spec; auto using addsub_params_ok. Qed.
Print Assumptions C07_not_ref.

(** * Shifts.  [s] ranges over ALL integers, hence over the values of each of the twelve
    primitive shift types, negative amounts (panic) and amounts >= 2^64 included. *)
Theorem C07_ushl : forall a s, canon a -> biguint_shl a s = omap enc (spec_shl (val a) s).
Proof. intros. apply biguint_shl_spec; auto. Qed.
Print Assumptions C07_ushl.
Theorem C07_ushr : forall a s, canon a -> vec_ok a -> biguint_shr a s = omap enc (spec_shr (val a) s).
Proof. intros. apply biguint_shr_spec; auto. Qed.
Print Assumptions C07_ushr.
Theorem C07_shl : forall x s, icanon x -> ishl x s = omap ienc (spec_shl (ival x) s).
Proof. intros. apply ishl_spec; auto. Qed.
Print Assumptions C07_shl.
Theorem C07_shl_assign : forall x s, icanon x -> ishl_assign x s = omap ienc (spec_shl (ival x) s).
Proof. intros. apply ishl_assign_spec; auto. Qed.
Print Assumptions C07_shl_assign.
(** floor: [spec_shr x s = Ret (x / 2^s)] and Coq's [/] rounds toward minus infinity *)
Theorem C07_shr : forall x s, icanon x -> vec_ok (mag x) ->
  ishr bits addsub x s = omap ienc (spec_shr (ival x) s).
Proof. intros. apply ishr_spec; auto using bits_params_ok, addsub_params_ok. Qed.
Print Assumptions C07_shr.
Theorem C07_shr_assign : forall x s, icanon x -> vec_ok (mag x) ->
  ishr_assign bits addsub x s = omap ienc (spec_shr (ival x) s).
Proof. intros. apply ishr_assign_spec; auto using bits_params_ok, addsub_params_ok. Qed.
Print Assumptions C07_shr_assign.
(** the form of the right-shift spec the driver evaluates (no 2^s for astronomical s) *)
Theorem C07_shr_exec : forall x s, spec_shr_exec x s = spec_shr x s.
Proof. exact spec_shr_exec_eq. Qed.
Print Assumptions C07_shr_exec.

(** * bits, trailing_zeros, trailing_ones, count_ones *)
Theorem C07_bits : forall a, canon a -> ubits a = spec_bits (val a).
Proof. exact ubits_spec. Qed.
Print Assumptions C07_bits.
Theorem C07_ibits : forall x, icanon x -> ibits x = spec_bits (ival x).
Proof. exact ibits_spec. Qed.
Print Assumptions C07_ibits.
Theorem C07_trailing_zeros : forall a, canon a -> utrailing_zeros a = spec_trailing_zeros (val a).
Proof. intros a [Ha _]. apply utrailing_zeros_spec; auto. Qed.
Print Assumptions C07_trailing_zeros.
Theorem C07_itrailing_zeros : forall x, icanon x -> itrailing_zeros x = spec_trailing_zeros (ival x).
Proof. exact itrailing_zeros_spec. Qed.
Print Assumptions C07_itrailing_zeros.
(** [spec_trailing_zeros x = Some k] means: bit k of x is set and all lower bits are clear *)
Theorem C07_trailing_zeros_meaning : forall x, x <> 0 -> is_tz x (ztz x).
Proof. exact ztz_meaning. Qed.
Print Assumptions C07_trailing_zeros_meaning.
Theorem C07_trailing_ones : forall a, canon a -> utrailing_ones a = spec_trailing_ones (val a).
Proof. intros a [Ha _]. apply utrailing_ones_spec; auto. Qed.
Print Assumptions C07_trailing_ones.
Theorem C07_trailing_ones_meaning : forall a, canon a ->
  let k := utrailing_ones a in
  0 <= k /\ Z.testbit (val a) k = false /\ forall j, 0 <= j < k -> Z.testbit (val a) j = true.
Proof. intros a [Ha _]. apply utrailing_ones_meaning; auto. Qed.
Print Assumptions C07_trailing_ones_meaning.
Theorem C07_count_ones : forall a, canon a -> ucount_ones a = spec_count_ones (val a).
Proof. intros a [Ha _]. apply ucount_ones_spec; auto. Qed.
Print Assumptions C07_count_ones.

(** * bit *)
Theorem C07_ubit : forall a i, canon a -> 0 <= i -> Ret (ubit a i) = spec_bit (val a) i.
Proof. intros a i [Ha _] Hi. unfold spec_bit. f_equal. apply ubit_spec; auto. Qed.
Print Assumptions C07_ubit.
Theorem C07_bit : forall x i, icanon x -> 0 <= i -> ibit bits x i = spec_bit (ival x) i.
Proof. intros. apply ibit_spec; auto using bits_params_ok. Qed.
Print Assumptions C07_bit.
Theorem C07_bit_exec : forall x i, spec_bit_exec x i = spec_bit x i.
Proof. intros. unfold spec_bit_exec, spec_bit. f_equal. apply bit_exec_eq. Qed.
Print Assumptions C07_bit_exec.

(** * set_bit  (bit indices are u64) *)
Theorem C07_uset_bit : forall a i v, canon a -> 0 <= i < B ->
  uset_bit bits a i v = omap enc (spec_set_bit (val a) i v).
Proof. intros. apply uset_bit_spec; auto using bits_params_ok. Qed.
Print Assumptions C07_uset_bit.
Theorem C07_set_bit_nonneg : forall x i v, icanon x -> sg x <> Minus -> 0 <= i < B ->
  iset_bit bits x i v = omap ienc (spec_set_bit (ival x) i v).
Proof. intros. apply iset_bit_nonneg_spec; auto using bits_params_ok. Qed.
Print Assumptions C07_set_bit_nonneg.
(** every sign, all five arms of `set_negative_bit` (grow beyond the top digit, above / at /
    below the lowest set bit, the carry walk and the mask flip included) *)
Theorem C07_set_bit : forall x i v, icanon x -> vec_ok (mag x) -> 0 <= i < B ->
  iset_bit bits x i v = omap ienc (spec_set_bit (ival x) i v).
Proof. intros. apply iset_bit_spec; auto using bits_params_ok. Qed.
Print Assumptions C07_set_bit.
Theorem C07_set_bit_exec : forall x i v, 0 <= i -> spec_set_bit_exec x i v = spec_set_bit x i v.
Proof. intros. unfold spec_set_bit_exec, spec_set_bit. f_equal. apply set_bit_exec_eq; auto. Qed.
Print Assumptions C07_set_bit_exec.

(* Non-vacuity: canonical multi-digit operands of unequal length whose two's-complement carry
   runs through a whole digit and forces an extra digit; a shift across the digit boundary; the
   floor adjustment. *)
Example C07_nonvacuous :
  canonb [0; 1] = true /\ canonb [B - 1] = true /\
  iand bits (mkint Minus [0; 1]) (mkint Minus [B - 1]) = Ret (mkint Minus [0; 1]) /\
  ixor bits (mkint Plus [B - 1; B - 1]) (mkint Minus [1]) = Ret (mkint Minus [0; 0; 1]) /\
  biguint_shl [0; 1] 65 = Ret [0; 0; 2] /\
  ishr bits addsub (mkint Minus [1; 1]) 64 = Ret (mkint Minus [2]) /\
  iset_bit bits (mkint Minus [0; B - 1]) 64 false = Ret (mkint Minus [0; 0; 1]) /\
  iset_bit bits (mkint Minus [0; 0; 2]) 3 true = Ret (mkint Minus [B - 8; B - 1; 1]).
Proof. repeat split; vm_compute; reflexivity. Qed.
