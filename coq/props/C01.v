(* C01 — addition and subtraction are exact for every operand length and carry pattern.
   Statements only; proofs live in proofs/AddSubProofs.v (generic in the parameters) and
   are instantiated at the parameters extracted from /repo's current source. *)
From BigNum Require Import Base BaseLemmas X86 AddSub SpecAddSub AddSubProofs AsmProofs Extracted InstAddSub.
Open Scope Z_scope.

Theorem C01_uadd : forall a b, canon a -> canon b ->
  uadd addsub a b = omap enc (spec_uadd (val a) (val b)).
Proof. intros; apply uadd_spec; auto using addsub_params_ok. Qed.
Print Assumptions C01_uadd.

Theorem C01_usub : forall a b, canon a -> canon b ->
  usub addsub a b = omap enc (spec_usub (val a) (val b)).
Proof.
  intros a b [Ha _] [Hb _]; unfold spec_usub, omap.
  rewrite usub_spec by auto using addsub_params_ok. destruct (val a <? val b); reflexivity.
Qed.
Print Assumptions C01_usub.

Theorem C01_usub_ref_val : forall a b, canon a -> canon b ->
  usub_ref_val addsub a b = omap enc (spec_usub (val a) (val b)).
Proof.
  intros a b Ha Hb; unfold spec_usub, omap.
  rewrite usub_ref_val_spec by auto using addsub_params_ok. destruct (val a <? val b); reflexivity.
Qed.
Print Assumptions C01_usub_ref_val.

Theorem C01_uchecked_sub : forall a b, canon a -> canon b ->
  uchecked_sub addsub a b = omap (option_map enc) (spec_uchecked_sub (val a) (val b)).
Proof.
  intros a b Ha Hb; unfold spec_uchecked_sub, omap; cbn [bind].
  rewrite uchecked_sub_spec by auto using addsub_params_ok. destruct (val a <? val b); reflexivity.
Qed.
Print Assumptions C01_uchecked_sub.

Theorem C01_ucmp : forall a b, canon a -> canon b ->
  ucmp a b = spec_ucmp (val a) (val b).
Proof. intros; apply cmp_slice_spec; auto. Qed.
Print Assumptions C01_ucmp.

Theorem C01_iadd : forall x y, icanon x -> icanon y ->
  iadd addsub x y = omap ienc (spec_iadd (ival x) (ival y)).
Proof. intros; apply iadd_spec; auto using addsub_params_ok. Qed.
Print Assumptions C01_iadd.

Theorem C01_isub : forall x y, icanon x -> icanon y ->
  isub addsub x y = omap ienc (spec_isub (ival x) (ival y)).
Proof. intros; apply isub_spec; auto using addsub_params_ok. Qed.
Print Assumptions C01_isub.

(* The inline-asm loop as written in the source (template re-extracted on every run), run
   under the x86 fragment semantics, computes the list function the model uses, for every
   block count; it leaves b untouched and accesses only cells below 5*(size/5). *)
Theorem C01_asm_add : forall a b size, wf a -> wf b ->
  0 <= size <= Z.of_nat (length a) -> size <= Z.of_nat (length b) -> size < B -> 1 <= size / ap_blk addsub ->
  let K := size / ap_blk addsub in
  let '(s', ok) := run (Z.to_nat K) (ap_add_prog addsub) (init_state (mem_of a) (mem_of b) K) in
  ok = true /\
  schoolbook adc_zip (ap_blk addsub) a b size = Ret (seg (ma s') 0 (length a), rg s' Rc, rg s' Ridx) /\
  (forall j, mb s' j = mem_of b j) /\
  Forall (acc_ok (5 * K)) (tr s').
Proof.
  destruct (addsub_ok_inv addsub addsub_params_ok) as (-> & -> & _ & _). exact asm_add_correct.
Qed.
Print Assumptions C01_asm_add.

Theorem C01_asm_sub : forall a b size, wf a -> wf b ->
  0 <= size <= Z.of_nat (length a) -> size <= Z.of_nat (length b) -> size < B -> 1 <= size / ap_blk addsub ->
  let K := size / ap_blk addsub in
  let '(s', ok) := run (Z.to_nat K) (ap_sub_prog addsub) (init_state (mem_of a) (mem_of b) K) in
  ok = true /\
  schoolbook sbb_zip (ap_blk addsub) a b size = Ret (seg (ma s') 0 (length a), rg s' Rc, rg s' Ridx) /\
  (forall j, mb s' j = mem_of b j) /\
  Forall (acc_ok (5 * K)) (tr s').
Proof.
  destruct (addsub_ok_inv addsub addsub_params_ok) as (-> & _ & -> & _). exact asm_sub_correct.
Qed.
Print Assumptions C01_asm_sub.

(* Non-vacuity: canonical multi-digit operands exist and exercise the carry into a new digit. *)
Example C01_nonvacuous :
  canonb [B - 1; B - 1] = true /\ canonb [1] = true /\
  uadd addsub [B - 1; B - 1] [1] = Ret [0; 0; 1].
Proof. split; [|split]; vm_compute; reflexivity. Qed.

(* ---- added by the API audit (docs/API_COVERAGE.md): BigInt's INHERENT checked_add / checked_sub
   (`x.checked_add(&y)` on a BigInt resolves to them, not to the CheckedAdd/CheckedSub trait rows of
   the C10 table): always Some(exact canonical result). *)
From BigNum Require Import ExtraOrd ExtraOrdProofs.
Theorem C01_ichecked_add : forall x y, icanon x -> icanon y ->
  ichecked_add addsub x y = Ret (Some (ienc (ival x + ival y))).
Proof. intros; apply ichecked_add_spec; auto using addsub_params_ok. Qed.
Print Assumptions C01_ichecked_add.
Theorem C01_ichecked_sub : forall x y, icanon x -> icanon y ->
  ichecked_sub addsub x y = Ret (Some (ienc (ival x - ival y))).
Proof. intros; apply ichecked_sub_spec; auto using addsub_params_ok. Qed.
Print Assumptions C01_ichecked_sub.
