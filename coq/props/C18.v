(* C18 — random generation stays within the requested bounds and covers them.
   Statements only; proofs live in proofs/RandProofs.v.

   The RNG is a scripted word stream [s : list Z] of 32-bit words ([words s]); every operation
   returns the value together with the remaining stream.  [OutOfFuel] arises only when the stream
   ends (C18_fuel_*, C18_below_out_of_fuel); `rand`'s `fill` / `gen::<bool>` are modelled, not
   verified (see docs/notes/randsign.md). *)
From BigNum Require Import Base BaseLemmas AddSub SpecAddSub AddSubProofs Sign SpecSign SignProofs
  Rand SpecRand RandProofs Extracted InstAddSub InstSign InstRand.
Open Scope Z_scope.

(* The theorems are proved generically in the source-extracted decision points of src/bigrand.rs and
   instantiated here at `Extracted.rand` (inst/InstRand.v) — and at `Extracted.signs`, `Extracted.addsub`
   for the sign helpers and the adder they call. *)
Local Notation RP := Extracted.rand.
Local Notation rok := rand_params_ok.

(** gen_biguint(n) = the first ceil(n/32) words as little-endian base-2^32 digits with the top
    word shifted down by (32 - n mod 32) mod 32: a fixed, platform-independent function of the
    stream, canonical ([enc]), and below 2^n. *)
Theorem C18_gen_biguint : forall n s, 0 <= n -> words s ->
  gen_biguint RP n s = omap lift_u (spec_gen_biguint n s).
Proof. intros; apply gen_biguint_spec; auto using rok. Qed.
Print Assumptions C18_gen_biguint.

Theorem C18_gen_biguint_words : forall n ws rest, 0 <= n -> words ws -> words rest ->
  Z.of_nat (length ws) = nwords n ->
  gen_biguint RP n (ws ++ rest) = Ret (enc (cand n ws), rest) /\ 0 <= cand n ws < 2 ^ n.
Proof. intros; apply gen_biguint_words; auto using rok. Qed.
Print Assumptions C18_gen_biguint_words.

Theorem C18_gen_biguint_bound : forall n s v r, 0 <= n -> words s ->
  spec_gen_biguint n s = Ret (v, r) -> 0 <= v < 2 ^ n.
Proof. intros n s v r Hn Hs E. destruct (spec_gen_biguint_ret _ _ _ _ Hn Hs E) as (ws & H). apply H. Qed.
Print Assumptions C18_gen_biguint_bound.

(** gen_bigint(n) lies in (-2^n, 2^n), is canonical, and is the first (magnitude, sign word)
    pair that is not a zero magnitude with a `true` sign word. *)
Theorem C18_gen_bigint : forall n s, 0 <= n -> words s ->
  gen_bigint RP n s = omap lift_i (spec_gen_bigint n s).
Proof. intros; apply gen_bigint_spec; auto using rok. Qed.
Print Assumptions C18_gen_bigint.

Theorem C18_gen_bigint_bound : forall n s v r, 0 <= n -> words s ->
  spec_gen_bigint n s = Ret (v, r) -> - 2 ^ n < v < 2 ^ n.
Proof. intros n s v r Hn Hs E. eapply spec_gen_bigint_loop_bound; eauto. Qed.
Print Assumptions C18_gen_bigint_bound.

Theorem C18_gen_bigint_first : forall n red acc w rest, 0 <= n ->
  Forall (redraw n) red -> chunk_ok n acc -> words (concat red ++ acc ++ w :: rest) ->
  (cand n acc <> 0 \/ Z.testbit w 31 = false) ->
  gen_bigint RP n (concat red ++ acc ++ w :: rest)
  = Ret (ienc (if Z.testbit w 31 then cand n acc else - cand n acc), rest).
Proof. intros; apply gen_bigint_first; auto using rok. Qed.
Print Assumptions C18_gen_bigint_first.

(** gen_biguint_below(b): a zero bound panics; otherwise the result is the first candidate of
    bits(b) bits that is below b, hence < b and canonical. *)
Theorem C18_below : forall bound s, canon bound -> words s ->
  gen_biguint_below RP bound s = omap lift_u (spec_below (val bound) s).
Proof. intros; apply gen_biguint_below_spec; auto using rok. Qed.
Print Assumptions C18_below.

Theorem C18_below_bound : forall bound s c r, words s ->
  spec_below bound s = Ret (c, r) -> 0 <= c < bound.
Proof. intros bound s c r Hs E. apply (spec_below_ret _ _ _ _ Hs E). Qed.
Print Assumptions C18_below_bound.

Theorem C18_below_first : forall bound rej acc rest, canon bound -> bound <> [] ->
  let bits := Z.log2 (val bound) + 1 in
  Forall (fun c => chunk_ok bits c /\ words c /\ val bound <= cand bits c) rej ->
  chunk_ok bits acc -> words acc -> cand bits acc < val bound -> words rest ->
  gen_biguint_below RP bound (concat rej ++ acc ++ rest) = Ret (enc (cand bits acc), rest).
Proof. intros; apply below_first; auto using rok. Qed.
Print Assumptions C18_below_first.

Theorem C18_below_panic : forall bound s k,
  spec_below bound s = Panic k <-> (bound <= 0 /\ k = EmptyRange).
Proof. intros; apply spec_below_panic. Qed.
Print Assumptions C18_below_panic.

(** below_uniform: every value v < bound is the candidate of exactly 2^(top_shift bits) word
    tuples, one per value [low] of the discarded low bits of the top word (a bijection between
    the accepted tuples mapped to v and [0, 2^top_shift)) — the same number for every v, so every
    value of a range is produced by equally many candidates. *)
Theorem C18_below_uniform : forall bound v low, 0 < bound -> 0 <= v < bound ->
  let bits := Z.log2 bound + 1 in
  0 <= low < 2 ^ top_shift bits ->
  exists ws,
    (words ws /\ chunk_ok bits ws /\ cand bits ws = v /\ last ws 0 mod 2 ^ top_shift bits = low) /\
    forall ws', words ws' -> chunk_ok bits ws' -> cand bits ws' = v ->
                last ws' 0 mod 2 ^ top_shift bits = low -> ws' = ws.
Proof. intros; apply below_uniform; auto. Qed.
Print Assumptions C18_below_uniform.

(** Ranges: [low, high) — and [low, high] for the inclusive constructor — canonical results;
    empty or inverted ranges panic, nothing else does. *)
Theorem C18_biguint_range : forall lo hi s, canon lo -> canon hi -> words s ->
  gen_biguint_range RP addsub lo hi s = omap lift_u (spec_range (val lo) (val hi) s).
Proof. intros; apply gen_biguint_range_spec; auto using addsub_params_ok, rok. Qed.
Print Assumptions C18_biguint_range.

Theorem C18_bigint_range : forall lo hi s, icanon lo -> icanon hi -> words s ->
  gen_bigint_range RP Extracted.signs addsub lo hi s = omap lift_i (spec_range (ival lo) (ival hi) s).
Proof. intros; apply gen_bigint_range_spec; auto using addsub_params_ok, sign_params_ok, rok. Qed.
Print Assumptions C18_bigint_range.

Theorem C18_uniform_biguint : forall lo hi s, canon lo -> canon hi -> words s ->
  (do u <- uu_new RP addsub lo hi; uu_sample RP addsub u s) = omap lift_u (spec_range (val lo) (val hi) s) /\
  (do u <- uu_new_inclusive RP addsub lo hi; uu_sample RP addsub u s)
    = omap lift_u (spec_range_inclusive (val lo) (val hi) s) /\
  uu_sample_single RP addsub lo hi s = omap lift_u (spec_range (val lo) (val hi) s).
Proof.
  intros; split; [apply uu_new_sample_spec|split; [apply uu_new_inclusive_sample_spec|
    apply gen_biguint_range_spec]]; auto using addsub_params_ok, rok.
Qed.
Print Assumptions C18_uniform_biguint.

Theorem C18_uniform_bigint : forall lo hi s, icanon lo -> icanon hi -> words s ->
  (do u <- ui_new RP Extracted.signs addsub lo hi; ui_sample RP Extracted.signs addsub u s) = omap lift_i (spec_range (ival lo) (ival hi) s) /\
  (do u <- ui_new_inclusive RP Extracted.signs addsub lo hi; ui_sample RP Extracted.signs addsub u s)
    = omap lift_i (spec_range_inclusive (ival lo) (ival hi) s) /\
  ui_sample_single RP Extracted.signs addsub lo hi s = omap lift_i (spec_range (ival lo) (ival hi) s).
Proof.
  intros; split; [apply ui_new_sample_spec|split; [apply ui_new_inclusive_sample_spec|
    apply gen_bigint_range_spec]]; auto using addsub_params_ok, sign_params_ok, rok.
Qed.
Print Assumptions C18_uniform_bigint.

Theorem C18_range_bounds : forall lo hi s v r, words s ->
  (spec_range lo hi s = Ret (v, r) -> lo <= v < hi) /\
  (spec_range_inclusive lo hi s = Ret (v, r) -> lo <= v <= hi).
Proof.
  intros lo hi s v r Hs. split; intros E;
    [apply (spec_range_ret _ _ _ _ _ Hs E)|apply (spec_range_inclusive_ret _ _ _ _ _ Hs E)].
Qed.
Print Assumptions C18_range_bounds.

Theorem C18_range_panic : forall lo hi s k,
  (spec_range lo hi s = Panic k <-> (hi <= lo /\ k = EmptyRange)) /\
  (spec_range_inclusive lo hi s = Panic k <-> (hi < lo /\ k = EmptyRange)).
Proof. intros; split; [apply spec_range_panic|apply spec_range_inclusive_panic]. Qed.
Print Assumptions C18_range_panic.

(** RandomBits matches gen_biguint / gen_bigint. *)
Theorem C18_random_bits : forall n s,
  random_bits_u RP n s = gen_biguint RP n s /\ random_bits_i RP n s = gen_bigint RP n s.
Proof. intros; split; reflexivity. Qed.
Print Assumptions C18_random_bits.

(** Fuel: the loops' results do not depend on the fuel once it exceeds the stream length (each
    iteration consumes a word), so [OutOfFuel] means the stream ended; for bounded sampling that
    means the stream holds no first acceptable candidate. *)
Theorem C18_fuel_below : forall bits bound f1 f2 s, 1 <= nwords bits ->
  (length s < f1)%nat -> (length s < f2)%nat ->
  spec_below_loop f1 bits bound s = spec_below_loop f2 bits bound s.
Proof. intros; apply spec_below_loop_fuel; auto. Qed.
Print Assumptions C18_fuel_below.

Theorem C18_fuel_bigint : forall n f1 f2 s, (length s < f1)%nat -> (length s < f2)%nat ->
  spec_gen_bigint_loop f1 n s = spec_gen_bigint_loop f2 n s.
Proof. intros; apply spec_gen_bigint_loop_fuel; auto. Qed.
Print Assumptions C18_fuel_bigint.

Theorem C18_below_out_of_fuel : forall bound s, 0 < bound -> spec_below bound s = OutOfFuel ->
  let bits := Z.log2 bound + 1 in
  ~ exists rej acc rest, s = concat rej ++ acc ++ rest /\
      Forall (fun c => chunk_ok bits c /\ bound <= cand bits c) rej /\
      chunk_ok bits acc /\ cand bits acc < bound.
Proof. intros; apply spec_below_out_of_fuel; auto. Qed.
Print Assumptions C18_below_out_of_fuel.

(* Non-vacuity: a 70-bit draw (3 words, top word shifted by 26), a bounded draw that rejects two
   candidates (the bound itself and the all-ones candidate) before accepting bound-1, a
   zero-crossing BigInt range, and an empty range. *)
Example C18_nonvacuous :
  wordsb [1; 2; 4294967295; 9] = true /\
  gen_biguint RP 70 [1; 2; 4294967295; 9] = Ret ([1 + 4294967296 * 2; 63], [9]) /\
  canonb [0; 5] = true /\
  gen_biguint_below RP [0; 5] [0; 0; 2684354560; 4294967295; 4294967295; 4294967295;
                            4294967295; 4294967295; 2147483648; 7]
    = Ret ([B - 1; 4], [7]) /\
  gen_bigint_range RP Extracted.signs addsub (mkint Minus [3]) (mkint Plus [2]) [7 * 536870912; 4 * 536870912; 11]
    = Ret (mkint Plus [1], [11]) /\
  gen_biguint_range RP addsub [5] [5] [1; 2] = Panic EmptyRange.
Proof. repeat split; vm_compute; reflexivity. Qed.
