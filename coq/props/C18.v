(* C18 — random generation (stub; theorems follow). *)
From BigNum Require Import Base BaseLemmas AddSub Sign SpecSign Rand SpecRand Extracted InstAddSub.
Open Scope Z_scope.

Example C18_nonvacuous :
  gen_biguint 70 [1; 2; 4294967295; 9] = Ret ([1 + 4294967296 * 2; 63], [9]).
Proof. vm_compute. reflexivity. Qed.
