(* C11 — placeholder (statements follow). *)
From BigNum Require Import Base BaseLemmas.
Open Scope Z_scope.
Example C11_nonvacuous : canonb [1] = true. Proof. vm_compute. reflexivity. Qed.
