(* C11 — integer roots are the exact floor roots.
   Statements only; proofs live in proofs/RootsMath.v (Z level) and proofs/RootsProofs.v
   (refinement, generic in the source-extracted parameters under roots_ok / pow_ok / addsub_ok).
   The initial guess is a PARAMETER of the model: every theorem holds for EVERY guess function
   that returns canonical values >= 1 ([guess_ok]); the f64-derived guesses of the std build
   are not modelled.  Big multiplication / division: the REAL models, [pgr_bmul] = Mul.umul
   Extracted.mul and [pgr_bdivrem] = Div.udivrem Extracted.div (proofs/PgrInst.v; exact by
   MulProofs5.umul_spec (C02) / DivProofsApi.udivrem_spec (C03)): no exactness hypothesis is left. *)
From BigNum Require Import Base BaseLemmas X86 AddSub ShiftCore PgrLoop PgrLoopProofs Pow PowProofs
  Gcd SpecRoots RootsMath Roots RootsProofs Div Mul PgrInst Extracted InstAddSub InstPgr.
Open Scope Z_scope.

(* the executable spec [zroot] is THE floor root: r^n <= x < (r+1)^n, and that r is unique *)
Theorem C11_spec_is_floor_root : forall n x, 1 <= n -> 0 <= x ->
  0 <= zroot n x /\ zroot n x ^ n <= x < (zroot n x + 1) ^ n /\
  (forall r, 0 <= r -> r ^ n <= x < (r + 1) ^ n -> r = zroot n x).
Proof.
  intros n x Hn Hx. destruct (zroot_spec n x Hn Hx) as [H0 H1]. split; [exact H0|]. split; [exact H1|].
  intros r Hr H. symmetry. apply zroot_eq; auto. split; auto.
Qed.
Print Assumptions C11_spec_is_floor_root.

(* integer AM-GM and the two facts about the Newton step f(s) = ((n-1)s + x / s^(n-1)) / n *)
Theorem C11_amgm : forall r s n, 0 <= r -> 0 <= s -> 1 <= n ->
  n * r * s ^ (n - 1) <= r ^ n + (n - 1) * s ^ n.
Proof. exact amgm. Qed.
Print Assumptions C11_amgm.
Theorem C11_newton_ge : forall n x s, 1 <= n -> 0 <= x -> 0 < s -> zroot n x <= newton n x s.
Proof. intros. apply newton_ge; auto. apply zroot_spec; auto. Qed.
Print Assumptions C11_newton_ge.
Theorem C11_newton_lt : forall n x s, 1 <= n -> 0 <= x -> zroot n x < s -> newton n x s < s.
Proof. intros n x s Hn Hx Hs. apply newton_lt with (r := zroot n x); auto. apply zroot_spec; auto. Qed.
Print Assumptions C11_newton_lt.
Theorem C11_cap_ok : forall n x, 1 <= n -> 1 <= x -> zroot n x < 2 ^ ((Z.log2 x + 1) / n + 1).
Proof. intros. apply cap_ok; auto. apply zroot_spec; auto; lia. Qed.
Print Assumptions C11_cap_ok.

(* the two-phase driver: from ANY start g >= 1, with fuel max(g, 2^max_bits) + 3, for any step
   function with the two Newton properties and a cap above the root *)
Theorem C11_fixpoint : forall (F : Z -> Z) (f : list Z -> outcome (list Z)) (r mb : Z),
  (forall s, canon s -> 1 <= val s -> f s = Ret (enc (F (val s)))) ->
  (forall s, 1 <= s -> r <= F s) -> (forall s, r < s -> F s < s) ->
  1 <= r -> r < 2 ^ mb -> 0 <= mb ->
  forall g fuel, canon g -> 1 <= val g -> Z.max (val g) (2 ^ mb) + 3 <= Z.pos fuel ->
  fixpoint pgr_roots fuel g mb f = Ret (enc r).
Proof. intros. eapply fixpoint_spec; eauto using roots_params_ok. Qed.
Print Assumptions C11_fixpoint.

(* what the theorems below are about: the real models at the extracted parameters *)
Theorem C11_real_ops : pgr_bmul = Mul.umul Extracted.mul /\ pgr_bdivrem = Div.udivrem Extracted.div.
Proof. split; reflexivity. Qed.
Print Assumptions C11_real_ops.

Local Notation Hm := pgr_bmul_exact.
Local Notation Hd := pgr_bdivrem_exact.
Local Notation nth_ := (unth_root pgr_bmul pgr_bdivrem addsub pgr_pow pgr_roots).
Local Notation sqrt_ := (usqrt pgr_bdivrem addsub pgr_roots).
Local Notation cbrt_ := (ucbrt pgr_bmul pgr_bdivrem addsub pgr_roots).

(* sqrt, cbrt, nth_root (n : u32) return the floor root; n = 0 panics *)
Theorem C11_roots : forall gf, guess_ok gf -> forall x, canon x ->
  (forall n, 0 <= n < 2 ^ 32 -> nth_ gf x n = omap enc (spec_unth_root (val x) n)) /\
  sqrt_ gf x = Ret (enc (zroot 2 (val x))) /\
  cbrt_ gf x = Ret (enc (zroot 3 (val x))).
Proof.
  intros gf Hg x Cx. split; [|split].
  - intros n Hn. apply unth_root_spec; auto using Hm, Hd, addsub_params_ok, pow_params_ok, roots_params_ok.
  - apply usqrt_spec; auto using Hd, addsub_params_ok, roots_params_ok.
  - apply ucbrt_spec; auto using Hm, Hd, addsub_params_ok, roots_params_ok.
Qed.
Print Assumptions C11_roots.

(* the std / no_std clause: the result does not depend on the initial guess *)
Theorem C11_guess_independent : forall gf1 gf2, guess_ok gf1 -> guess_ok gf2 -> forall x, canon x ->
  (forall n, 0 <= n < 2 ^ 32 -> nth_ gf1 x n = nth_ gf2 x n) /\
  sqrt_ gf1 x = sqrt_ gf2 x /\ cbrt_ gf1 x = cbrt_ gf2 x.
Proof.
  intros gf1 gf2 H1 H2 x Cx.
  destruct (C11_roots gf1 H1 x Cx) as (A1 & B1 & C1). destruct (C11_roots gf2 H2 x Cx) as (A2 & B2 & C2).
  split; [|split].
  - intros n Hn. rewrite A1, A2 by auto. reflexivity.
  - rewrite B1, B2. reflexivity.
  - rewrite C1, C2. reflexivity.
Qed.
Print Assumptions C11_guess_independent.

(* BigInt: negated root of |x| for odd n (truncation toward zero); even roots of negatives and
   n = 0 panic *)
Theorem C11_bigint : forall gf, guess_ok gf -> forall x, icanon x ->
  (forall n, 0 <= n < 2 ^ 32 ->
     inth_root pgr_bmul pgr_bdivrem addsub pgr_pow pgr_roots gf x n = omap ienc (spec_inth_root (ival x) n)) /\
  isqrt pgr_bdivrem addsub pgr_roots gf x = omap ienc (spec_isqrt (ival x)) /\
  icbrt pgr_bmul pgr_bdivrem addsub pgr_roots gf x = omap ienc (spec_icbrt (ival x)).
Proof.
  intros gf Hg x Cx. split; [|split].
  - intros n Hn. apply inth_root_spec; auto using Hm, Hd, addsub_params_ok, pow_params_ok, roots_params_ok.
  - apply isqrt_spec; auto using Hd, addsub_params_ok, roots_params_ok.
  - apply icbrt_spec; auto using Hm, Hd, addsub_params_ok, roots_params_ok.
Qed.
Print Assumptions C11_bigint.


(* sqrt calls only the division (kept under its historical name; same as the sqrt clauses above) *)
Theorem C11_sqrt_closed : forall gf, guess_ok gf ->
  (forall x, canon x -> usqrt pgr_bdivrem addsub pgr_roots gf x = Ret (enc (zroot 2 (val x)))) /\
  (forall x, icanon x -> isqrt pgr_bdivrem addsub pgr_roots gf x = omap ienc (spec_isqrt (ival x))).
Proof.
  intros gf Hg. split; intros.
  - apply usqrt_spec; auto using pgr_bdivrem_exact, addsub_params_ok, roots_params_ok.
  - apply isqrt_spec; auto using pgr_bdivrem_exact, addsub_params_ok, roots_params_ok.
Qed.
Print Assumptions C11_sqrt_closed.

(* the no_std guess is a legal guess *)
Theorem C11_guess_nostd_ok : forall x n mb, 0 <= mb -> canon (guess_nostd x n mb) /\ 1 <= val (guess_nostd x n mb).
Proof.
  intros x n mb Hmb. unfold guess_nostd. rewrite ShiftCoreProofs.ushl_spec by (apply canon_1 || lia).
  rewrite val_single, Z.mul_1_l. split; [apply enc_canon|].
  pose proof (Z.pow_pos_nonneg 2 mb ltac:(lia) Hmb). rewrite enc_val; lia.
Qed.
Print Assumptions C11_guess_nostd_ok.

(* Non-vacuity: the hypotheses are satisfiable, and the Newton iteration really runs (on the real
   multiplication and division models):
   floor(sqrt(2^128 + 5)) = 2^64, floor(cbrt(-(2^65))) = -(2^21) * 2^(2/3)... = -3329021, 5th root. *)
Example C11_nonvacuous :
  canonb [5; 0; 1] = true /\
  usqrt pgr_bdivrem addsub pgr_roots guess_nostd [5; 0; 1] = Ret [0; 1] /\
  usqrt pgr_bdivrem addsub pgr_roots (fun _ _ _ => [1]) [5; 0; 1] = Ret [0; 1] /\
  unth_root pgr_bmul pgr_bdivrem addsub pgr_pow pgr_roots guess_nostd [0; 0; 1] 5 = Ret [50859008] /\
  icbrt pgr_bmul pgr_bdivrem addsub pgr_roots guess_nostd (mkint Minus [0; 2]) = Ret (mkint Minus [3329021]) /\
  inth_root pgr_bmul pgr_bdivrem addsub pgr_pow pgr_roots guess_nostd (mkint Minus [0; 2]) 2 = Panic ImagRoot.
Proof.
  repeat split; vm_compute; reflexivity.
Qed.
