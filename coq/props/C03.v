(* C03 — division yields the unique quotient/remainder of each rounding convention. *)
From BigNum Require Import Base BaseLemmas X86 AddSub ShiftCore Div SpecDiv DivProofs Extracted InstDiv.
Open Scope Z_scope.

Example C03_nonvacuous :
  canonb [1; 2; 3] = true /\ canonb [5; 7] = true /\
  udivrem Extracted.div [1; 2; 3] [5; 7] = Ret (enc (val [1; 2; 3] / val [5; 7]), enc (val [1; 2; 3] mod val [5; 7])).
Proof. split; [|split]; vm_compute; reflexivity. Qed.
