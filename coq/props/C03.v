(* C03 — division yields the unique quotient/remainder of each rounding convention; division by
   zero panics and every checked_* variant returns None instead (division part of C14).
   Statements only; the proofs are in proofs/DivProofs{,Core,Api,Sign}.v, generic in the
   source-extracted parameters, and instantiated here at `Extracted.div` (inst/InstDiv.v).
   `= Ret ...` includes: no internal assertion (`hi < divisor` before the hardware div,
   `borrow == a0`, the final `cmp_slice`), no u128/u64 debug overflow, fuel suffices.
   All statements are proved in full: nothing here is `_partial`. *)
From BigNum Require Import Base BaseLemmas X86 AddSub SpecAddSub ShiftCore Div SpecDiv
  DivProofs DivProofsCore DivProofsApi DivProofsSign Extracted InstDiv.
Open Scope Z_scope.

Local Notation P := Extracted.div.
Local Notation ok := div_params_ok.

(** ** Internals (any length) *)

Theorem C03_div_wide : forall hi lo d, 0 <= hi < d ->
  div_wide hi lo d = Ret ((hi * B + lo) / d, (hi * B + lo) mod d).
Proof. exact div_wide_spec. Qed.
Print Assumptions C03_div_wide.

Theorem C03_div_rem_digit : forall a b, wf a -> 0 < b < B ->
  div_rem_digit a b = Ret (enc (val a / b), val a mod b).
Proof. exact div_rem_digit_spec. Qed.
Print Assumptions C03_div_rem_digit.

Theorem C03_rem_digit : forall a b, wf a -> 0 < b < B -> rem_digit a b = Ret (val a mod b).
Proof. exact rem_digit_spec. Qed.
Print Assumptions C03_rem_digit.

Theorem C03_digit_zero : forall a, div_rem_digit a 0 = Panic DivZero /\ rem_digit a 0 = Panic DivZero.
Proof. intros; split; reflexivity. Qed.
Print Assumptions C03_digit_zero.

(* a - b*c with a borrow word; the offset-carry u128 arithmetic never overflows *)
Theorem C03_sub_mul : forall a b c, wf a -> wf b -> length a = length b -> 0 <= c < B ->
  exists a' br, sub_mul_digit_same_len a b c = Ret (a', br) /\ wf a' /\ length a' = length a /\
                0 <= br < B /\ val a' - B ^ Z.of_nat (length a) * br = val a - c * val b.
Proof. exact sub_mul_spec. Qed.
Print Assumptions C03_sub_mul.

(* Knuth D on a normalised divisor: total correctness (q-hat bounds, at most one add-back,
   every assertion holds) *)
Theorem C03_div_rem_core : forall a b, wf a -> wf b ->
  (2 <= length b <= length a)%nat -> B <= 2 * last b 0 ->
  div_rem_core P a b = Ret (enc (val a / val b), enc (val a mod val b)).
Proof. intros; apply div_rem_core_spec; auto using ok. Qed.
Print Assumptions C03_div_rem_core.

(** ** BigUint: 0 <= r < b *)

Theorem C03_udivrem : forall a b, canon a -> canon b ->
  udivrem P a b = if val b =? 0 then Panic DivZero
                  else Ret (enc (val a / val b), enc (val a mod val b)).
Proof. intros; apply udivrem_spec; auto using ok. Qed.
Print Assumptions C03_udivrem.

Theorem C03_udivrem_val : forall a b, canon a -> canon b ->
  udivrem_val P a b = if val b =? 0 then Panic DivZero
                      else Ret (enc (val a / val b), enc (val a mod val b)).
Proof. intros; apply udivrem_val_spec; auto using ok. Qed.
Print Assumptions C03_udivrem_val.

(* the pair is THE pair with a = q*b + r, 0 <= r < b *)
Theorem C03_unsigned_unique : forall a b q r, 0 < b ->
  (a = q * b + r /\ 0 <= r < b) <-> (q = a / b /\ r = a mod b).
Proof.
  intros a b q r Hb. split.
  - intros [E H]. apply floor_unique. split; [exact E|left; exact H].
  - intros [-> ->]. destruct (floor_holds a b ltac:(lia)) as [E H]. split; [exact E|lia].
Qed.
Print Assumptions C03_unsigned_unique.

Theorem C03_udiv : forall a b, canon a -> canon b ->
  udiv P a b = omap enc (spec_udiv (val a) (val b)) /\
  udiv_val P a b = omap enc (spec_udiv (val a) (val b)) /\
  udiv_floor P a b = omap enc (spec_udiv (val a) (val b)) /\
  udiv_euclid P a b = omap enc (spec_udiv (val a) (val b)).
Proof. intros; repeat split; try apply udiv_spec; try apply udiv_val_spec; auto using ok. Qed.
Print Assumptions C03_udiv.

Theorem C03_urem : forall a b, canon a -> canon b ->
  urem P a b = omap enc (spec_urem (val a) (val b)) /\
  urem_val P a b = omap enc (spec_urem (val a) (val b)) /\
  umod_floor P a b = omap enc (spec_urem (val a) (val b)) /\
  urem_euclid P a b = omap enc (spec_urem (val a) (val b)).
Proof.
  intros; repeat split; try apply urem_spec; try apply urem_val_spec; try apply umod_floor_spec; auto using ok.
Qed.
Print Assumptions C03_urem.

Theorem C03_udivrem_api : forall a b, canon a -> canon b ->
  udiv_mod_floor P a b = omap enc2 (spec_udivrem (val a) (val b)) /\
  udiv_rem_euclid P a b = omap enc2 (spec_udivrem (val a) (val b)).
Proof. intros; split; apply udivrem_refines; auto using ok. Qed.
Print Assumptions C03_udivrem_api.

Theorem C03_udiv_ceil : forall a b, canon a -> canon b ->
  udiv_ceil P a b = omap enc (spec_udiv_ceil (val a) (val b)).
Proof. intros; apply udiv_ceil_spec; auto using ok. Qed.
Print Assumptions C03_udiv_ceil.

(** scalar forms: BigUint (/ %) u32|u64|u128 and uN (/ %) BigUint by digit count *)
Theorem C03_scalar_right : forall a s, canon a ->
  (0 <= s < B -> udiv_u32 P a s = omap enc (spec_udiv (val a) s) /\
                 urem_u32 P a s = omap enc (spec_urem (val a) s) /\
                 udiv_u64 P a s = omap enc (spec_udiv (val a) s) /\
                 urem_u64 P a s = omap enc (spec_urem (val a) s)) /\
  (0 <= s < B * B -> udiv_u128 P a s = omap enc (spec_udiv (val a) s) /\
                     urem_u128 P a s = omap enc (spec_urem (val a) s)).
Proof.
  intros a s Ca. split; intros Hs.
  - repeat split; [apply udiv_u32_spec|apply urem_u32_spec|apply udiv_u64_spec|apply urem_u64_spec]; auto using ok.
  - split; [apply udiv_u128_spec|apply urem_u128_spec]; auto using ok.
Qed.
Print Assumptions C03_scalar_right.

Theorem C03_scalar_left : forall s b, canon b ->
  (0 <= s < 2 ^ 32 -> u32_rem_u s b = omap enc (spec_scalar_rem s (val b))) /\
  (0 <= s < B -> digit_div_u s b = omap enc (spec_scalar_div s (val b)) /\
                 u64_rem_u s b = omap enc (spec_scalar_rem s (val b))) /\
  (0 <= s < B * B -> u128_div_u s b = omap enc (spec_scalar_div s (val b)) /\
                     u128_rem_u s b = omap enc (spec_scalar_rem s (val b))).
Proof.
  intros s b Cb. split; [|split]; intros Hs.
  - apply u32_rem_u_spec; auto.
  - split; [apply digit_div_u_spec|apply u64_rem_u_spec]; auto.
  - split; [apply u128_div_u_spec|apply u128_rem_u_spec]; auto.
Qed.
Print Assumptions C03_scalar_left.

(** ** BigInt, truncation toward zero (/, %, div_rem): r has the sign of a *)
Theorem C03_trunc : forall x y, icanon x -> icanon y ->
  idiv_rem P x y = omap ienc2 (spec_idivrem (ival x) (ival y)) /\
  idiv P x y = omap ienc (spec_idiv (ival x) (ival y)) /\
  irem P x y = omap ienc (spec_irem (ival x) (ival y)).
Proof.
  intros; repeat split; [apply idiv_rem_spec|apply idiv_spec|apply irem_spec]; auto using ok.
Qed.
Print Assumptions C03_trunc.

Theorem C03_trunc_unique : forall a b q r, b <> 0 ->
  (a = q * b + r /\ Z.abs r < Z.abs b /\ (0 <= a -> 0 <= r) /\ (a <= 0 -> r <= 0))
  <-> (q = Z.quot a b /\ r = Z.rem a b).
Proof.
  intros a b q r Hb. split.
  - apply (trunc_unique a b q r Hb).
  - intros [-> ->]. apply (trunc_holds a b Hb).
Qed.
Print Assumptions C03_trunc_unique.

(** ** flooring (div_floor, mod_floor, div_mod_floor): r has the sign of b *)
Theorem C03_floor : forall x y, icanon x -> icanon y ->
  idiv_floor P x y = omap ienc (spec_idiv_floor (ival x) (ival y)) /\
  imod_floor P x y = omap ienc (spec_imod_floor (ival x) (ival y)) /\
  idiv_mod_floor P x y = omap ienc2 (spec_idiv_mod_floor (ival x) (ival y)).
Proof.
  intros; repeat split; [apply idiv_floor_spec|apply imod_floor_spec|apply idiv_mod_floor_spec]; auto using ok.
Qed.
Print Assumptions C03_floor.

Theorem C03_floor_unique : forall a b q r, b <> 0 ->
  (a = q * b + r /\ (0 <= r < b \/ b < r <= 0)) <-> (q = a / b /\ r = a mod b).
Proof.
  intros a b q r Hb. split.
  - apply (floor_unique a b q r).
  - intros [-> ->]. apply (floor_holds a b Hb).
Qed.
Print Assumptions C03_floor_unique.

(** ** Euclidean (div_euclid, rem_euclid, div_rem_euclid): 0 <= r < |b| *)
Theorem C03_euclid : forall x y, icanon x -> icanon y ->
  idiv_euclid P x y = omap ienc (spec_div_euclid (ival x) (ival y)) /\
  irem_euclid P x y = omap ienc (spec_rem_euclid (ival x) (ival y)) /\
  idiv_rem_euclid P x y = omap ienc2 (spec_div_rem_euclid (ival x) (ival y)).
Proof.
  intros; repeat split; [apply idiv_euclid_spec|apply irem_euclid_spec|apply idiv_rem_euclid_spec]; auto using ok.
Qed.
Print Assumptions C03_euclid.

Theorem C03_euclid_unique : forall a b q r, b <> 0 ->
  (a = q * b + r /\ 0 <= r < Z.abs b) <-> (q = euclid_div a b /\ r = euclid_rem a b).
Proof.
  intros a b q r Hb. split.
  - apply (euclid_unique a b q r Hb).
  - intros [-> ->]. apply (euclid_holds a b Hb).
Qed.
Print Assumptions C03_euclid_unique.

(** ** rounding up (div_ceil): q = -floor(-a / b); a - q*b is 0 or has the sign opposite to b *)
Theorem C03_ceil : forall x y, icanon x -> icanon y ->
  idiv_ceil P x y = omap ienc (spec_idiv_ceil (ival x) (ival y)).
Proof. intros; apply idiv_ceil_spec; auto using ok. Qed.
Print Assumptions C03_ceil.

Theorem C03_ceil_unique : forall a b q, b <> 0 ->
  (exists r, a = q * b + r /\ (- b < r <= 0 \/ 0 <= r < - b)) <-> q = ceil_div a b.
Proof.
  intros a b q Hb. split.
  - intros [r H]. apply (ceil_unique a b q r H).
  - intros ->. exists (a - ceil_div a b * b). apply (ceil_holds a b Hb).
Qed.
Print Assumptions C03_ceil_unique.

(** ** checked variants: None exactly when the divisor is zero, never a panic *)
Theorem C03_checked_udiv : forall a b, canon a -> canon b ->
  uchecked_div P a b = omap (option_map enc) (spec_uchecked_div (val a) (val b)).
Proof. intros; apply uchecked_div_spec; auto using ok. Qed.
Print Assumptions C03_checked_udiv.

Theorem C03_checked_udiv_euclid : forall a b, canon a -> canon b ->
  uchecked_div_euclid P a b = omap (option_map enc) (spec_uchecked_div (val a) (val b)).
Proof. intros; apply uchecked_div_euclid_spec; auto using ok. Qed.
Print Assumptions C03_checked_udiv_euclid.

Theorem C03_checked_urem_euclid : forall a b, canon a -> canon b ->
  uchecked_rem_euclid P a b = omap (option_map enc) (spec_uchecked_rem (val a) (val b)).
Proof. intros; apply uchecked_rem_euclid_spec; auto using ok. Qed.
Print Assumptions C03_checked_urem_euclid.

Theorem C03_checked_udiv_rem_euclid : forall a b, canon a -> canon b ->
  uchecked_div_rem_euclid P a b = omap (option_map enc2) (spec_uchecked_divrem (val a) (val b)).
Proof. intros; apply uchecked_div_rem_euclid_spec; auto using ok. Qed.
Print Assumptions C03_checked_udiv_rem_euclid.

Theorem C03_checked_idiv : forall x y, icanon x -> icanon y ->
  ichecked_div P x y = omap (option_map ienc) (spec_ichecked_div (ival x) (ival y)) /\
  ichecked_div_inherent P x y = omap (option_map ienc) (spec_ichecked_div (ival x) (ival y)).
Proof. intros; split; [apply ichecked_div_spec|apply ichecked_div_inherent_spec]; auto using ok. Qed.
Print Assumptions C03_checked_idiv.

Theorem C03_checked_idiv_euclid : forall x y, icanon x -> icanon y ->
  ichecked_div_euclid P x y = omap (option_map ienc) (spec_ichecked_div_euclid (ival x) (ival y)).
Proof. intros; apply ichecked_div_euclid_spec; auto using ok. Qed.
Print Assumptions C03_checked_idiv_euclid.

Theorem C03_checked_irem_euclid : forall x y, icanon x -> icanon y ->
  ichecked_rem_euclid P x y = omap (option_map ienc) (spec_ichecked_rem_euclid (ival x) (ival y)).
Proof. intros; apply ichecked_rem_euclid_spec; auto using ok. Qed.
Print Assumptions C03_checked_irem_euclid.

Theorem C03_checked_idiv_rem_euclid : forall x y, icanon x -> icanon y ->
  ichecked_div_rem_euclid P x y = omap (option_map ienc2) (spec_ichecked_div_rem_euclid (ival x) (ival y)).
Proof. intros; apply ichecked_div_rem_euclid_spec; auto using ok. Qed.
Print Assumptions C03_checked_idiv_rem_euclid.

(* Non-vacuity: canonical multi-digit operands exist; the example takes the normalisation
   shift, the `a0 == b0` branch is exercised by the second one, and a zero divisor panics /
   gives None. *)
Example C03_nonvacuous :
  canonb [1; 2; 3] = true /\ canonb [5; 7] = true /\
  udivrem P [1; 2; 3] [5; 7] = Ret (enc (val [1; 2; 3] / val [5; 7]), enc (val [1; 2; 3] mod val [5; 7])) /\
  div_rem_core P [7; B - 2; 2 ^ 63] [B - 1; 2 ^ 63] = Ret ([B - 1], [6; 2 ^ 63]) /\
  udivrem P [1; 2; 3] [] = Panic DivZero /\
  ichecked_div_rem_euclid P (mkint Minus [1; 2; 3]) (mkint NoSign []) = Ret None.
Proof. repeat split; vm_compute; reflexivity. Qed.
