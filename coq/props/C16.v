(* C16 — feature configurations.  The value-independence half of the property: every
   `cfg(feature = ..)` site of the source (list regenerated on every run) is a whole-file or
   whole-item gate, a capacity estimate (only ever passed to Vec::with_capacity) or a root
   initial guess (only ever passed to `fixpoint`); no other feature-conditional code exists.
   The model has no feature parameter at all except the root guess, whose irrelevance is
   C11_guess_independent.  The "compiles in every configuration" half is a build matrix run
   by the check (see tools/gen/c16.py). *)
From BigNum Require Import Base Cfg Extracted.
Open Scope Z_scope.

Theorem C16_cfg_sites_classified : forallb cfg_ok cfg_sites = true.
Proof. vm_compute. reflexivity. Qed.
Print Assumptions C16_cfg_sites_classified.

Theorem C16_no_other_site : forall s, In s cfg_sites ->
  cs_kind s = FileGate \/ cs_kind s = ItemGate \/ cs_kind s = LetCapacity \/ cs_kind s = LetRootGuess.
Proof.
  intros s Hs. pose proof (proj1 (forallb_forall cfg_ok cfg_sites) C16_cfg_sites_classified s Hs) as H.
  unfold cfg_ok in H. destruct (cs_kind s); auto; discriminate.
Qed.
Print Assumptions C16_no_other_site.

Example C16_nonvacuous : (0 < length cfg_sites)%nat.
Proof. vm_compute. repeat constructor. Qed.
