(* C05 — modular exponentiation and modular inverse are exact for every modulus.
   Statements only; proofs live in proofs/MontyProofs.v, proofs/ModpowProofs.v,
   proofs/ModinvZ.v (generic in the extracted parameters and in the big operations) and are
   instantiated in proofs/ModpowInst.v with the parameters extracted from /repo's current
   source, the real division model (Div.udivrem, spec proved) and the real multiplication
   model (Mul.umul).

   STATUS.  Everything is closed (no hypothesis beyond canonicity and the 2^57-digit length
   bound): the whole Montgomery kernel, [monty_modpow], [BigUint::modpow], [BigInt::modpow],
   [plain_modpow] and [modinv] for every modulus, the determinacy of the spec.  The even-modulus
   and modinv paths multiply with the real model Mul.umul Extracted.mul, whose specification is
   MulProofs5.umul_spec (property C02; [ModpowInst.mul_spec_proved]). *)
From BigNum Require Import Base BaseLemmas AddSub Monty Modpow SpecModpow MontyProofs ModinvZ
  ModpowProofs ModpowInst Extracted InstModpow.
Open Scope Z_scope.

(** * Montgomery kernel (hook level) *)

Theorem C05_inv_mod_alt : forall b, digit b -> Z.odd b = true ->
  exists k, inv_mod_alt b = Ret k /\ digit k /\ (k * b) mod B = B - 1.
Proof. exact inv_mod_alt_spec. Qed.
Print Assumptions C05_inv_mod_alt.

Theorem C05_add_mul_vvw : forall z x y, wf z -> wf x -> digit y -> length z = length x ->
  exists z' c, add_mul_vvw z x y = Ret (z', c) /\ wf z' /\ length z' = length z /\ digit c /\
    val z' + B ^ Z.of_nat (length z) * c = val z + val x * y.
Proof. exact add_mul_vvw_spec. Qed.
Print Assumptions C05_add_mul_vvw.

Theorem C05_sub_vv : forall z x y, wf x -> wf y -> length z = length x -> length x = length y ->
  let '(z', c) := sub_vv z x y in
  wf z' /\ length z' = length x /\ (c = 0 \/ c = 1) /\
  val z' - B ^ Z.of_nat (length x) * c = val x - val y.
Proof.
  intros z x y Wx Wy L1 L2. pose proof (sub_vv_c_spec z x y 0 Wx Wy (or_introl eq_refl) L1 L2) as H.
  unfold sub_vv. destruct (sub_vv_c z x y 0) as [z' c]. destruct H as (A & B0 & C & D).
  repeat split; auto. lia.
Qed.
Print Assumptions C05_sub_vv.

(* almost-Montgomery multiplication: operands of exactly n digits (< B^n), k = -m^-1 mod B:
   the result has exactly n digits (< B^n), no internal assertion / index / overflow fires,
   and r * B^n = x*y + T*m, i.e. r ≡ x*y*B^-n (mod m). *)
Theorem C05_montgomery : forall x y m k n,
  wf x -> wf y -> wf m -> length x = n -> length y = n -> length m = n ->
  digit k -> (k * hd 0 m) mod B = B - 1 ->
  exists r, montgomery modpow x y m k n = Ret r /\ wf r /\ length r = n /\
    exists T, val r * B ^ Z.of_nat n = val x * val y + T * val m.
Proof. intros; apply montgomery_spec; auto using modpow_params_ok. Qed.
Print Assumptions C05_montgomery.

Theorem C05_monty_modpow : forall x y m, canon x -> canon y -> canon m ->
  Z.odd (val m) = true -> Z.of_nat (length m) < 2 ^ 57 ->
  r_monty_modpow modpow x y m = Ret (enc (val x ^ val y mod val m)).
Proof. intros; apply r_monty_modpow_spec; auto using modpow_params_ok. Qed.
Print Assumptions C05_monty_modpow.

(** * The spec is the intended meaning and determines the result *)

Theorem C05_powmod_correct : forall b e m, 0 <= e -> m <> 0 -> powmod b e m = b ^ e mod m.
Proof. exact powmod_correct. Qed.
Print Assumptions C05_powmod_correct.

Theorem C05_modinv_determined : forall b m r1 r2, m <> 0 ->
  modinv_rel b m r1 -> modinv_rel b m r2 -> r1 = r2.
Proof. exact modinv_rel_unique. Qed.
Print Assumptions C05_modinv_determined.

(* Some x: x in [0,m) resp. (m,0], b*x ≡ 1 (mod m), gcd(b,m) = 1;  None: gcd(b,m) <> 1 *)
Theorem C05_spec_modinv_char : forall b m, m <> 0 ->
  exists r, spec_imodinv b m = Ret r /\ modinv_rel b m r.
Proof. exact spec_imodinv_char. Qed.
Print Assumptions C05_spec_modinv_char.

Theorem C05_spec_umodinv_char : forall b m, 0 < m ->
  exists r, spec_umodinv b m = Ret r /\ modinv_rel b m r.
Proof. exact spec_umodinv_char. Qed.
Print Assumptions C05_spec_umodinv_char.

(** * BigUint::modpow / BigInt::modpow, odd modulus (closed) *)

Theorem C05_umodpow_odd : forall x e m, canon x -> canon e -> canon m ->
  Z.odd (val m) = true -> Z.of_nat (length m) < 2 ^ 57 ->
  r_umodpow modpow x e m = omap enc (spec_umodpow (val x) (val e) (val m)).
Proof.
  intros x e m Cx Ce Cm Hodd Hlen. unfold r_umodpow, spec_umodpow, omap.
  assert (val m <> 0) by (intros E; rewrite E in Hodd; discriminate).
  replace (val m =? 0) with false by (symmetry; apply Z.eqb_neq; auto). cbn [bind].
  rewrite powmod_correct by (auto; apply val_nonneg, Ce).
  apply umodpow_odd_spec; auto using modpow_params_ok, InstAddSub.addsub_params_ok, rdivrem_spec.
Qed.
Print Assumptions C05_umodpow_odd.

Theorem C05_imodpow_odd : forall x e m, icanon x -> icanon e -> icanon m ->
  Z.odd (ival m) = true -> Z.of_nat (length (mag m)) < 2 ^ 57 ->
  r_imodpow modpow x e m = omap ienc (spec_imodpow (ival x) (ival e) (ival m)).
Proof.
  intros x e m Hx He Hm Hodd Hlen. unfold r_imodpow, spec_imodpow, omap.
  rewrite imodpow_odd_spec by (auto using modpow_params_ok, InstAddSub.addsub_params_ok, rdivrem_spec).
  assert (ival m <> 0) by (intros E; rewrite E in Hodd; discriminate).
  destruct (Z.ltb_spec (ival e) 0); [reflexivity|].
  replace (ival m =? 0) with false by (symmetry; apply Z.eqb_neq; auto). cbn [bind].
  rewrite powmod_correct by auto. reflexivity.
Qed.
Print Assumptions C05_imodpow_odd.

(* the repaired case: modulus +-1 gives Some 0 for every operand (closed) *)
Theorem C05_imodinv_unit_modulus : forall x s, (s = Plus \/ s = Minus) ->
  r_imodinv modpow x (mkint s [1]) = Ret (Some (mkint NoSign [])).
Proof. intros x s [-> | ->]; vm_compute; reflexivity. Qed.
Print Assumptions C05_imodinv_unit_modulus.

(** * Every modulus *)

Theorem C05_umodpow :
  forall x e m, canon x -> canon e -> canon m -> Z.of_nat (length m) < 2 ^ 57 ->
  r_umodpow modpow x e m = omap enc (spec_umodpow (val x) (val e) (val m)).
Proof.
  intros x e m Cx Ce Cm Hlen. unfold spec_umodpow, omap.
  rewrite r_umodpow_spec by auto using modpow_params_ok.
  destruct (Z.eqb_spec (val m) 0); [reflexivity|]. cbn [bind].
  rewrite powmod_correct by (auto; apply val_nonneg, Ce). reflexivity.
Qed.
Print Assumptions C05_umodpow.

Theorem C05_plain_modpow :
  forall b e m, canon b -> canon e -> canon m -> val m <> 0 ->
  r_plain_modpow b e m = Ret (enc (if val e =? 0 then 1 else val b ^ val e mod val m)).
Proof. apply r_plain_modpow_spec; auto. Qed.
Print Assumptions C05_plain_modpow.

Theorem C05_imodpow :
  forall x e m, icanon x -> icanon e -> icanon m -> Z.of_nat (length (mag m)) < 2 ^ 57 ->
  r_imodpow modpow x e m = omap ienc (spec_imodpow (ival x) (ival e) (ival m)).
Proof.
  intros x e m Hx He Hm Hlen. unfold spec_imodpow, omap.
  rewrite r_imodpow_spec by auto using modpow_params_ok.
  destruct (Z.ltb_spec (ival e) 0); [reflexivity|].
  destruct (Z.eqb_spec (ival m) 0); [reflexivity|]. cbn [bind].
  rewrite powmod_correct by auto. reflexivity.
Qed.
Print Assumptions C05_imodpow.

(* zero modulus => Panic ZeroModulus; Some x / None characterised by C05_spec_umodinv_char +
   C05_modinv_determined *)
Theorem C05_umodinv :
  forall a m, canon a -> canon m ->
  r_umodinv a m = omap (option_map enc) (spec_umodinv (val a) (val m)).
Proof. apply r_umodinv_spec; auto. Qed.
Print Assumptions C05_umodinv.

(* includes the repaired m = +-1 case and all four sign combinations *)
Theorem C05_imodinv :
  forall x m, icanon x -> icanon m ->
  r_imodinv modpow x m = omap (option_map ienc) (spec_imodinv (ival x) (ival m)).
Proof. intros x m Hx Hm; apply r_imodinv_spec; auto using modpow_params_ok. Qed.
Print Assumptions C05_imodinv.

(* Non-vacuity: a canonical two-digit odd modulus whose top digit is all ones, a base >= m of the
   same length and a two-digit exponent; the Montgomery path runs and agrees with the spec; an even
   two-digit modulus (plain_modpow, real multiplication and division models). *)
Example C05_nonvacuous :
  canonb [B - 3; B - 1] = true /\ canonb [B - 1; B - 1] = true /\ canonb [5; 1] = true /\
  Z.odd (val [B - 3; B - 1]) = true /\
  r_umodpow modpow [B - 1; B - 1] [5; 1] [B - 3; B - 1] =
    omap enc (spec_umodpow (val [B - 1; B - 1]) (val [5; 1]) (val [B - 3; B - 1])) /\
  r_imodinv modpow (mkint Minus [5]) (mkint Minus [7]) = Ret (Some (mkint Minus [3])) /\
  r_umodpow modpow [3; 1] [5] [10; 4] = omap enc (spec_umodpow (val [3; 1]) 5 (val [10; 4])).
Proof.
  split; [vm_compute; reflexivity|]. split; [vm_compute; reflexivity|]. split; [vm_compute; reflexivity|].
  split; [vm_compute; reflexivity|]. split; [vm_compute; reflexivity|]. split; vm_compute; reflexivity.
Qed.
