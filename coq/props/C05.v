(* C05 — modpow / modinv (placeholder while the proofs are being written). *)
From BigNum Require Import Base BaseLemmas AddSub Monty Modpow SpecModpow Extracted.
Open Scope Z_scope.

Example C05_nonvacuous : inv_mod_alt 3 = Ret 6148914691236517205.
Proof. vm_compute. reflexivity. Qed.
