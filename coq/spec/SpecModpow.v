(* SpecModpow.v — Z-level meaning of modpow / modinv (C05).

   The *meaning* is [b ^ e mod m] (floor-mod: the result carries the sign of m) and
   "the unique x in the documented interval with b*x ≡ 1 (mod m), if gcd(b,m) = 1"
   ([modinv_rel]).  [powmod] and [zmodinv] are the executable forms used by the driver
   (b^e itself is astronomically large); proofs/ModpowProofs.v proves
   [powmod_correct : powmod b e m = b ^ e mod m] and [zmodinv_char] (the executable
   inverse satisfies [modinv_rel], which determines it: [modinv_rel_unique]). *)
From BigNum Require Import Base.
Open Scope Z_scope.

(** Binary exponentiation on the bits of [e] (structural on [positive]). *)
Fixpoint pos_powmod (b : Z) (e : positive) (m : Z) : Z :=
  match e with
  | xH => b mod m
  | xO e' => let h := pos_powmod b e' m in (h * h) mod m
  | xI e' => let h := pos_powmod b e' m in (((h * h) mod m) * b) mod m
  end.
Definition powmod (b e m : Z) : Z :=
  match e with Z0 => 1 mod m | Zpos p => pos_powmod b p m | Zneg _ => 0 end.

Definition spec_umodpow (b e m : Z) : outcome Z :=
  if m =? 0 then Panic ZeroModulus else Ret (powmod b e m).

(** BigInt: negative exponent is tested first; the result is the floor-mod (sign of m). *)
Definition spec_imodpow (b e m : Z) : outcome Z :=
  if e <? 0 then Panic NegExponent
  else if m =? 0 then Panic ZeroModulus
  else Ret (powmod b e m).

(** The documented meaning of modinv: [Some x] with x in [0,m) (m > 0) resp. (m,0] (m < 0)
    and b*x ≡ 1 (mod m) when gcd(b,m) = 1, [None] otherwise. *)
Definition in_range (x m : Z) : Prop := (0 <= x < m) \/ (m < x <= 0).
Definition modinv_rel (b m : Z) (r : option Z) : Prop :=
  match r with
  | Some x => in_range x m /\ (b * x) mod m = 1 mod m /\ Z.gcd b m = 1
  | None => Z.gcd b m <> 1
  end.

(** Executable form: extended Euclid on (m, b mod m) with the coefficient kept in [0,m). *)
Fixpoint zinv_loop (fuel : nat) (m r0 r1 t0 t1 : Z) : outcome (option Z) :=
  match fuel with
  | O => OutOfFuel
  | S f =>
      if r1 =? 0 then Ret (if r0 =? 1 then Some t0 else None)
      else zinv_loop f m r1 (r0 mod r1) t1 ((t0 - (r0 / r1) * t1) mod m)
  end.
Definition zinv_fuel (m : Z) : nat := Z.to_nat (2 * (Z.log2 m + 1) + 2).
(** for m > 0 and any b *)
Definition zmodinv_pos (b m : Z) : outcome (option Z) :=
  zinv_loop (zinv_fuel m) m m (b mod m) 0 (1 mod m).
(** any m <> 0: invert modulo |m|, then take the representative with the sign of m *)
Definition zmodinv (b m : Z) : outcome (option Z) :=
  omap (option_map (fun x => x mod m)) (zmodinv_pos b (Z.abs m)).

Definition spec_umodinv (b m : Z) : outcome (option Z) :=
  if m =? 0 then Panic ZeroModulus else zmodinv_pos b m.
Definition spec_imodinv (b m : Z) : outcome (option Z) :=
  if m =? 0 then Panic ZeroModulus else zmodinv b m.
