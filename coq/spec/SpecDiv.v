(* SpecDiv.v — Z-level meaning of the division API (C03, division part of C14).
   Every operation panics with DivZero exactly when the divisor is 0; checked variants
   return None instead. *)
From BigNum Require Import Base.
Open Scope Z_scope.

Definition nz {A} (b : Z) (r : A) : outcome A := if b =? 0 then Panic DivZero else Ret r.
Definition chk {A} (b : Z) (r : A) : outcome (option A) := Ret (if b =? 0 then None else Some r).

(** BigUint: 0 <= r < b *)
Definition spec_udivrem (a b : Z) : outcome (Z * Z) := nz b (a / b, a mod b).
Definition spec_udiv (a b : Z) : outcome Z := nz b (a / b).
Definition spec_urem (a b : Z) : outcome Z := nz b (a mod b).
Definition spec_udiv_ceil (a b : Z) : outcome Z := nz b (- ((- a) / b)).

(** BigInt, truncation toward zero: r has the sign of a *)
Definition spec_idivrem (a b : Z) : outcome (Z * Z) := nz b (Z.quot a b, Z.rem a b).
Definition spec_idiv (a b : Z) : outcome Z := nz b (Z.quot a b).
Definition spec_irem (a b : Z) : outcome Z := nz b (Z.rem a b).

(** flooring: r has the sign of b *)
Definition spec_idiv_floor (a b : Z) : outcome Z := nz b (a / b).
Definition spec_imod_floor (a b : Z) : outcome Z := nz b (a mod b).
Definition spec_idiv_mod_floor (a b : Z) : outcome (Z * Z) := nz b (a / b, a mod b).

(** rounding up *)
Definition ceil_div (a b : Z) : Z := - ((- a) / b).
Definition spec_idiv_ceil (a b : Z) : outcome Z := nz b (ceil_div a b).

(** Euclidean: 0 <= r < |b| *)
Definition euclid_rem (a b : Z) : Z := a mod (Z.abs b).
Definition euclid_div (a b : Z) : Z := Z.sgn b * (a / Z.abs b).
Definition spec_div_euclid (a b : Z) : outcome Z := nz b (euclid_div a b).
Definition spec_rem_euclid (a b : Z) : outcome Z := nz b (euclid_rem a b).
Definition spec_div_rem_euclid (a b : Z) : outcome (Z * Z) := nz b (euclid_div a b, euclid_rem a b).

(** checked variants *)
Definition spec_uchecked_div (a b : Z) : outcome (option Z) := chk b (a / b).
Definition spec_uchecked_rem (a b : Z) : outcome (option Z) := chk b (a mod b).
Definition spec_uchecked_divrem (a b : Z) : outcome (option (Z * Z)) := chk b (a / b, a mod b).
Definition spec_ichecked_div (a b : Z) : outcome (option Z) := chk b (Z.quot a b).
Definition spec_ichecked_div_euclid (a b : Z) : outcome (option Z) := chk b (euclid_div a b).
Definition spec_ichecked_rem_euclid (a b : Z) : outcome (option Z) := chk b (euclid_rem a b).
Definition spec_ichecked_div_rem_euclid (a b : Z) : outcome (option (Z * Z)) :=
  chk b (euclid_div a b, euclid_rem a b).

(** scalar on the left: the scalar is returned unchanged when the divisor does not fit *)
Definition spec_scalar_div (s b : Z) : outcome Z := nz b (s / b).
Definition spec_scalar_rem (s b : Z) : outcome Z := nz b (s mod b).
