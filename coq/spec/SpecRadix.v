(* SpecRadix.v — Z-level meaning of the radix / text API (C06).
   Text is a list of bytes.  Everything here is independent of the digit-level model
   (model/Radix.v, model/RadixText.v) except for the shared result types and the
   pad_integral model (std dependency code, modelled-not-verified). *)
From BigNum Require Import Base SpecBytes RadixText.
Open Scope Z_scope.

(** [le_digits b n] (SpecBytes): little-endian digits of [n] in base [b], none for n <= 0 — the
    unique expansion without a high zero digit; [le_value b l] = Σ d_i b^i. *)
Notation digits_le := le_digits.
Notation dsum := le_value.

Definition radix_in (lo hi r : Z) : bool := (lo <=? r) && (r <=? hi).

(** ** digit vectors, radix 2..=256 *)
Definition spec_to_radix_le (n r : Z) : list Z := if n =? 0 then [0] else digits_le r n.
Definition spec_to_radix_be (n r : Z) : list Z := rev (spec_to_radix_le n r).
(** `from_radix_le`: every digit below the radix, empty = zero; otherwise None *)
Definition spec_from_radix_le (ds : list Z) (r : Z) : outcome (option Z) :=
  if radix_in 2 256 r then
    Ret (if forallb (fun d => d <? r) ds then Some (dsum r ds) else None)
  else Panic BadRadix.
Definition spec_from_radix_be (ds : list Z) (r : Z) : outcome (option Z) :=
  spec_from_radix_le (rev ds) r.
Definition spec_ifrom_radix_le (s : sign) (ds : list Z) (r : Z) : outcome (option Z) :=
  do x <- spec_from_radix_le ds r; Ret (option_map (fun v => sign_z s * v) x).
Definition spec_ifrom_radix_be (s : sign) (ds : list Z) (r : Z) : outcome (option Z) :=
  spec_ifrom_radix_le s (rev ds) r.

(** ** text, radix 2..=36 *)
Definition digit_char (d : Z) : Z := if d <? 10 then 48 + d else 87 + d.   (* '0'.. / 'a'.. *)
(** sign-and-magnitude positional text: '-' for negatives, no leading zeros, lower case *)
Definition spec_to_str (z r : Z) : outcome (list Z) :=
  if radix_in 2 36 r then
    Ret ((if z <? 0 then [45] else []) ++ rev (map digit_char (spec_to_radix_le (Z.abs z) r)))
  else Panic BadRadix.

(** value of a digit character: '0'-'9', 'a'-'z', 'A'-'Z' *)
Definition char_digit (c : Z) : option Z :=
  if (48 <=? c) && (c <=? 57) then Some (c - 48)
  else if (97 <=? c) && (c <=? 122) then Some (c - 87)
  else if (65 <=? c) && (c <=? 90) then Some (c - 55)
  else None.
Definition is_digit_of (r c : Z) : bool :=
  match char_digit c with Some d => d <? r | None => false end.
Definition digit_of (c : Z) : Z := match char_digit c with Some d => d | None => 0 end.

(** The accepted language of from_str_radix: [sign]? d (d | '_')*  with d a digit character
    below the radix in either case; sign is '+' (both types) or '-' (BigInt only).
    The denoted value: Horner over the digit characters, underscores skipped. *)
Definition body_ok (r : Z) (body : list Z) : bool :=
  match body with
  | [] => false
  | c0 :: rest => is_digit_of r c0 && forallb (fun c => (c =? 95) || is_digit_of r c) rest
  end.
Definition body_value (r : Z) (body : list Z) : Z :=
  dsum r (rev (map digit_of (filter (fun c => negb (c =? 95)) body))).

(** the text after the sign: empty / not in the language / its value *)
Definition body_parse (r : Z) (body : list Z) : parse_result Z :=
  match body with
  | [] => PErr PEmpty
  | _ => if body_ok r body then POk (body_value r body) else PErr PInvalid
  end.
(** one optional sign: '+' for both types, '-' for BigInt only *)
Definition split_sign (signed : bool) (s : list Z) : bool * list Z :=
  match s with
  | c :: t => if c =? 43 then (false, t)
              else if (c =? 45) && signed then (true, t)
              else (false, s)
  | [] => (false, s)
  end.
Definition spec_from_str (signed : bool) (s : list Z) (r : Z) : outcome (parse_result Z) :=
  if radix_in 2 36 r then
    let '(neg, body) := split_sign signed s in
    Ret (pr_map (fun v => if neg then - v else v) (body_parse r body))
  else Panic BadRadix.

(** parse_bytes: not UTF-8 → None (before the radix is looked at); otherwise from_str_radix *)
Definition spec_parse_bytes (signed : bool) (buf : list Z) (r : Z) : outcome (option Z) :=
  if utf8_valid buf then do x <- spec_from_str signed buf r; Ret (pr_opt x) else Ret None.

(** the five formatters: pad_integral applied to the positional text of |z| *)
Definition spec_fmt (k : fmt_kind) (fl : fmt_flags) (z : Z) : outcome (list Z) :=
  do s <- spec_to_str (Z.abs z) (fmt_radix k);
  let s1 := match k with FUpperHex => ascii_upper s | _ => s end in
  Ret (pad_integral fl (0 <=? z) (fmt_prefix k) s1).
