(* SpecPow.v — Z-level meaning of exponentiation (C12). *)
From BigNum Require Import Base.
Open Scope Z_scope.

(** [x ^ e] for [e >= 0], written so that it is computable when |x| <= 1 and e is astronomically
    large (BigUint exponents beyond u128 with base 0 / +-1); equal to [x ^ e] (SpecPow lemma
    [zpow_safe_eq] in proofs/PowProofs.v). *)
Definition zpow_safe (x e : Z) : Z :=
  if Z.abs x <=? 1 then (if e =? 0 then 1 else if Z.even e then x * x else x) else x ^ e.

(** primitive exponent types: always defined *)
Definition spec_upow (x e : Z) : outcome Z := Ret (zpow_safe x e).
Definition spec_ipow (x e : Z) : outcome Z := Ret (zpow_safe x e).

(** BigUint exponent: "memory overflow" panic iff the base is >= 2 (in magnitude) and the
    exponent does not fit in u128 *)
Definition spec_upow_big (x e : Z) : outcome Z :=
  if (2 <=? Z.abs x) && (BB <=? e) then Panic MemOverflow else Ret (zpow_safe x e).
Definition spec_ipow_big (x e : Z) : outcome Z := spec_upow_big x e.
