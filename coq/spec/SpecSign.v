(* SpecSign.v — Z-level meaning of the sign / negation / identity helpers (C19). *)
From BigNum Require Import Base.
Open Scope Z_scope.

Definition spec_neg (a : Z) : Z := - a.
Definition spec_abs (a : Z) : Z := Z.abs a.
Definition spec_signum (a : Z) : Z := Z.sgn a.
Definition spec_is_positive (a : Z) : bool := 0 <? a.
Definition spec_is_negative (a : Z) : bool := a <? 0.
Definition spec_sign (a : Z) : sign := z_sign a.
Definition spec_magnitude (a : Z) : Z := Z.abs a.
Definition spec_abs_sub (a b : Z) : outcome Z := Ret (Z.max (a - b) 0).
Definition spec_icmp (a b : Z) : outcome comparison := Ret (a ?= b).
Definition spec_is_zero (a : Z) : bool := a =? 0.
Definition spec_is_one (a : Z) : bool := a =? 1.
(** from_biguint / new / from_slice / assign_from_slice: the requested sign times the magnitude
    (so a NoSign request yields 0 and a zero magnitude yields 0, whose sign is NoSign). *)
Definition spec_from_biguint (s : sign) (m : Z) : Z := sign_z s * m.
(** to_biguint / ToBigUint / TryFrom<BigInt>: Some exactly for the non-negative values. *)
Definition spec_to_biguint (a : Z) : option Z := if a <? 0 then None else Some a.
(** The rule of signs. *)
Definition spec_sign_neg (s : sign) : sign := z_sign (- sign_z s).
Definition spec_sign_mul (a b : sign) : sign := z_sign (sign_z a * sign_z b).
(** Value of a little-endian base-2^32 word list. *)
Fixpoint val32 (w : list Z) : Z :=
  match w with [] => 0 | d :: r => d + 4294967296 * val32 r end.
