(* SpecMul.v — Z-level meaning of the multiplication API (C02). *)
From BigNum Require Import Base.
Open Scope Z_scope.

Definition spec_umul (a b : Z) : outcome Z := Ret (a * b).
Definition spec_uchecked_mul (a b : Z) : outcome (option Z) := Ret (Some (a * b)).
Definition spec_imul (a b : Z) : outcome Z := Ret (a * b).
Definition spec_ichecked_mul (a b : Z) : outcome (option Z) := Ret (Some (a * b)).
