(* SpecHist.v — Z-level meaning of the history machine (C04): an object is an integer, every
   constructor and every in-place operation is the corresponding function on Z (taken from the
   specs of the owning areas).  Only the SYNTAX of constructors / operations is shared with the
   model (Hist.ctor, Hist.op); no model function is used here. *)
From BigNum Require Import Base SpecAddSub SpecDiv SpecBits SpecBytes SpecSign SpecPow SpecGcd SpecRoots SpecRadix Hist.
Open Scope Z_scope.

(** value denoted by raw operand data (high zero digits and a NoSign request both mean what
    `biguint_from_vec` / `from_biguint` make of them) *)
Definition rawval (y : obj) : Z :=
  match y with OU d => val d | OI x => sign_z (sg x) * val (mag x) end.

Definition words (w : list Z) : Z := le_value (2 ^ 32) w.

Definition sconstruct (c : ctor) : kind * Z :=
  match c with
  | CUVec d => (KU, val d)
  | CUNew w | CUSlice w | CUSerde w => (KU, words w)
  | CUBytesLe b => (KU, le_value 256 b)
  | CUBytesBe b => (KU, le_value 256 (rev b))
  | CIParts s d => (KI, sign_z s * val d)
  | CINew s w | CISlice s w | CISerde s w => (KI, sign_z s * words w)
  | CIBytesLe s b => (KI, sign_z s * le_value 256 b)
  | CIBytesBe s b => (KI, sign_z s * le_value 256 (rev b))
  | CISignedLe b => (KI, spec_from_signed_bytes_le b)
  | CISignedBe b => (KI, spec_from_signed_bytes_le (rev b))
  | CIFromU d => (KI, val d)
  | CURadixLe b r => (KU, le_value r b)
  | CURadixBe b r => (KU, le_value r (rev b))
  | CIRadixLe s b r => (KI, sign_z s * le_value r b)
  | CIRadixBe s b r => (KI, sign_z s * le_value r (rev b))
  end.

Definition ill_s : outcome Z := Panic (Internal 1400).

(** operand of the right kind *)
Definition operand (k : kind) (y : obj) (f : Z -> outcome Z) : outcome Z :=
  if kind_eqb k (okind y) then f (rawval y) else ill_s.

Definition sstep (k : kind) (v : Z) (o : op) : outcome Z :=
  match o with
  | OAdd y => operand k y (fun b => Ret (v + b))
  | OSub y => operand k y (fun b => match k with KU => spec_usub v b | KI => Ret (v - b) end)
  | ODiv y => operand k y (fun b => match k with KU => spec_udiv v b | KI => spec_idiv v b end)
  | ORem y => operand k y (fun b => match k with KU => spec_urem v b | KI => spec_irem v b end)
  | OAnd y => operand k y (fun b => spec_and v b)
  | OOr y => operand k y (fun b => spec_or v b)
  | OXor y => operand k y (fun b => spec_xor v b)
  | OShl n => spec_shl v n
  | OShr n => spec_shr_exec v n
  | OSetBit i b => spec_set_bit_exec v i b
  | OSetZero => Ret 0
  | OSetOne => Ret 1
  | OCloneFrom y => operand k y (fun b => Ret b)
  | OAssign s w => Ret (match k with KU => words w | KI => sign_z s * words w end)
  | OAddS _ s => match k with KU => Ret (v + s) | KI => ill_s end
  | OSubS _ s => match k with KU => spec_usub v s | KI => ill_s end
  | ODivS _ s => match k with KU => spec_udiv v s | KI => ill_s end
  | ORemS _ s => match k with KU => spec_urem v s | KI => ill_s end
  | ONeg => match k with KU => ill_s | KI => Ret (spec_neg v) end
  | ONot => match k with KU => ill_s | KI => spec_not v end
  | OAbs => match k with KU => ill_s | KI => Ret (spec_abs v) end
  | OSignum => match k with KU => ill_s | KI => Ret (spec_signum v) end
  | ODivFloor y => operand k y (fun b => match k with KU => spec_udiv v b | KI => spec_idiv_floor v b end)
  | OModFloor y => operand k y (fun b => match k with KU => spec_urem v b | KI => spec_imod_floor v b end)
  | ODivEuclid y => operand k y (fun b => match k with KU => spec_udiv v b | KI => spec_div_euclid v b end)
  | ORemEuclid y => operand k y (fun b => match k with KU => spec_urem v b | KI => spec_rem_euclid v b end)
  | ODivCeil y => operand k y (fun b => match k with KU => spec_udiv_ceil v b | KI => spec_idiv_ceil v b end)
  | OMul y => operand k y (fun b => Ret (v * b))
  | OMulS _ s => match k with KU => Ret (v * s) | KI => ill_s end
  | OPow e => spec_upow v e
  | OSqrt => match k with KU => spec_usqrt v | KI => spec_isqrt v end
  | OCbrt => match k with KU => spec_ucbrt v | KI => spec_icbrt v end
  | ONthRoot n => match k with KU => spec_unth_root v n | KI => spec_inth_root v n end
  | OGcd y => operand k y (fun b => Ret (Z.gcd v b))
  | OLcm y => operand k y (fun b => spec_lcm v b)
  end.

(** number of 64-bit digits of the canonical representation *)
Definition sfits (v : Z) : bool := zdigits v <? 2 ^ 58.
Definition sguard (v : Z) : outcome Z := if sfits v then Ret v else Panic MemOverflow.

Fixpoint srun (k : kind) (v : Z) (ops : list op) : outcome Z :=
  match ops with
  | [] => Ret v
  | o :: r => do v1 <- sstep k v o; do v2 <- sguard v1; srun k v2 r
  end.

Fixpoint strace (k : kind) (v : Z) (ops : list op) : list (outcome Z) :=
  match ops with
  | [] => []
  | o :: r => match (do v1 <- sstep k v o; sguard v1) with
              | Ret v2 => Ret v2 :: strace k v2 r
              | e => [e]
              end
  end.

Definition shistory_trace (c : ctor) (ops : list op) : kind * list (outcome Z) :=
  let '(k, v) := sconstruct c in
  (k, match sguard v with Ret v0 => Ret v0 :: strace k v0 ops | e => [e] end).

Definition shistory (c : ctor) (ops : list op) : kind * outcome Z :=
  let '(k, v) := sconstruct c in (k, do v0 <- sguard v; srun k v0 ops).

(** what two objects of the same kind with values [a], [b] must show *)
Record spair_obs := mkSPO {
  spo_eq : bool; spo_cmp : comparison; spo_same : bool;   (* hash / every export equal iff a = b *)
  spo_max : bool; spo_min : bool
}.
Definition sobserve_pair (a b : Z) : spair_obs :=
  mkSPO (a =? b) (a ?= b) (a =? b) (b <=? a) (a <=? b).

(** per export (order of Hist.exports_u / Hist.exports_i): digit vectors and bytes are injective,
    bits / count_ones / trailing_zeros are not; the last two are the decimal and hex text *)
Definition opt_eqb (x y : option Z) : bool :=
  match x, y with Some a, Some b => a =? b | None, None => true | _, _ => false end.
Definition sexports_eq (k : kind) (a b : Z) : list bool :=
  let e := a =? b in
  let bits := spec_bits a =? spec_bits b in
  let tz := opt_eqb (spec_trailing_zeros a) (spec_trailing_zeros b) in
  match k with
  | KU => [e; e; e; e; bits; spec_count_ones a =? spec_count_ones b; tz; e; e]
  | KI => [e; e; e; e; e; e; bits; tz; e; e]
  end.

(** every export as a function of the integer alone *)
Definition tz_list (x : Z) : list Z := match spec_trailing_zeros x with Some k => [k] | None => [] end.
Definition sexport (k : kind) (e : export) (v : Z) : outcome (list Z) :=
  match k, e with
  | KU, EU32 => Ret (spec_to_u32_digits v)
  | KU, EU64 => Ret (spec_to_u64_digits v)
  | KU, EBytesLe => Ret (spec_to_bytes_le v)
  | KU, EBytesBe => Ret (spec_to_bytes_be v)
  | KU, EBits => Ret [spec_bits v]
  | KU, ECountOnes => Ret [spec_count_ones v]
  | KU, ETrailingZeros => Ret (tz_list v)
  | KI, EU32 => Ret (sign_z (z_sign v) :: spec_to_u32_digits (Z.abs v))
  | KI, EU64 => Ret (sign_z (z_sign v) :: spec_to_u64_digits (Z.abs v))
  | KI, EBytesLe => Ret (sign_z (z_sign v) :: spec_to_bytes_le (Z.abs v))
  | KI, EBytesBe => Ret (sign_z (z_sign v) :: spec_to_bytes_be (Z.abs v))
  | KI, ESignedLe => Ret (spec_to_signed_bytes_le v)
  | KI, ESignedBe => Ret (spec_to_signed_bytes_be v)
  | KI, EBits => Ret [spec_bits v]
  | KI, ETrailingZeros => Ret (tz_list v)
  | _, EText r => spec_to_str v r
  | _, _ => Panic (Internal 1400)
  end.
