(* SpecGcd.v — Z-level meaning of gcd / lcm / Bezout / multiple-of helpers (C13). *)
From BigNum Require Import Base PgrLoop.
Open Scope Z_scope.

Definition spec_gcd (a b : Z) : outcome Z := Ret (Z.gcd a b).
(** |a*b| / gcd(a,b), 0 if either is 0 *)
Definition zlcm (a b : Z) : Z :=
  if (a =? 0) || (b =? 0) then 0 else Z.abs (a * b) / Z.gcd a b.
Definition spec_lcm (a b : Z) : outcome Z := Ret (zlcm a b).
Definition spec_gcd_lcm (a b : Z) : outcome (Z * Z) := Ret (Z.gcd a b, zlcm a b).

(** Bezout coefficients are not unique: the reference is num-integer's recurrence run on Z
    (truncating quotient), whose result is shown to satisfy a*x + b*y = g = gcd(a,b), g >= 0
    (GcdProofs.zegcd_bezout).  State ((s0,s1),(t0,t1),(r0,r1)). *)
Definition zegcd_state : Type := (Z * Z) * (Z * Z) * (Z * Z).
Definition zegcd_f (q : Z) (r : Z * Z) : Z * Z := (snd r - q * fst r, fst r).
Definition zegcd_step (st : zegcd_state) : outcome (zegcd_state + zegcd_state) :=
  let '(s, t, r) := st in
  if fst r =? 0 then Ret (inr st)
  else let q := Z.quot (snd r) (fst r) in
       Ret (inl (zegcd_f q s, zegcd_f q t, zegcd_f q r)).
Definition zegcd (a b : Z) : outcome (Z * Z * Z) :=
  do st <- run_loop zegcd_step (Z.to_pos (Z.abs b + 2)) ((0, 1), (1, 0), (b, a));
  let '(s, t, r) := st in
  Ret (if 0 <=? snd r then (snd r, snd s, snd t) else (0 - snd r, 0 - snd s, 0 - snd t)).
Definition spec_egcd (a b : Z) : outcome (Z * Z * Z) := zegcd a b.
Definition spec_egcd_lcm (a b : Z) : outcome (Z * Z * Z * Z) :=
  do e <- zegcd a b; Ret (e, zlcm a b).
(** the property the result must meet *)
Definition egcd_ok (a b g x y : Z) : bool :=
  (g =? Z.gcd a b) && (a * x + b * y =? g) && (0 <=? g).

(** only zero is a multiple of zero *)
Definition spec_is_multiple_of (a b : Z) : outcome bool :=
  Ret (if b =? 0 then a =? 0 else a mod b =? 0).
(** next / prev multiple: via the floored modulus (sign of the divisor) *)
Definition spec_next_multiple_of (a b : Z) : outcome Z :=
  if b =? 0 then Panic DivZero
  else Ret (if a mod b =? 0 then a else a + (b - a mod b)).
Definition spec_prev_multiple_of (a b : Z) : outcome Z :=
  if b =? 0 then Panic DivZero else Ret (a - a mod b).
Definition spec_is_even (a : Z) : outcome bool := Ret (Z.even a).
Definition spec_is_odd (a : Z) : outcome bool := Ret (Z.odd a).
Definition spec_uinc (a : Z) : outcome Z := Ret (a + 1).
Definition spec_udec (a : Z) : outcome Z := if a <? 1 then Panic SubUnderflow else Ret (a - 1).
Definition spec_iinc (a : Z) : outcome Z := Ret (a + 1).
Definition spec_idec (a : Z) : outcome Z := Ret (a - 1).
