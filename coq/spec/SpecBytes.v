(* SpecBytes.v — Z-level meaning of the byte / digit-vector / iterator / serde API (C09, C17). *)
From BigNum Require Import Base Iter.
Open Scope Z_scope.

(** little-endian digits of [n] in base [b] (b >= 2), none for n <= 0 — no high zero digit *)
Fixpoint le_digits_fuel (f : nat) (b n : Z) : list Z :=
  match f with
  | O => []
  | S f' => if n <=? 0 then [] else (n mod b) :: le_digits_fuel f' b (n / b)
  end.
Definition le_digits (b n : Z) : list Z := le_digits_fuel (Z.to_nat (Z.log2 n + 1)) b n.

(** fixed-width little-endian digits (wrapping) *)
Fixpoint le_digits_n (k : nat) (b n : Z) : list Z :=
  match k with O => [] | S k' => (n mod b) :: le_digits_n k' b (n / b) end.

(** value of a little-endian digit sequence in base [b]: Σ d_i b^i *)
Fixpoint le_value (b : Z) (l : list Z) : Z :=
  match l with [] => 0 | d :: r => d + b * le_value b r end.

Definition is_byte (x : Z) : bool := (0 <=? x) && (x <? 256).
Definition is_word (x : Z) : bool := (0 <=? x) && (x <? 2 ^ 32).

(** ** unsigned *)
Definition spec_to_bytes_le (n : Z) : list Z := if n =? 0 then [0] else le_digits 256 n.
Definition spec_to_bytes_be (n : Z) : list Z := rev (spec_to_bytes_le n).
Definition spec_from_bytes_le (l : list Z) : Z := le_value 256 l.
Definition spec_from_bytes_be (l : list Z) : Z := le_value 256 (rev l).
Definition spec_to_u32_digits (n : Z) : list Z := le_digits (2 ^ 32) n.
Definition spec_to_u64_digits (n : Z) : list Z := le_digits (2 ^ 64) n.
Definition spec_from_words (l : list Z) : Z := le_value (2 ^ 32) l.

(** ** signed: shortest two's complement *)
(** number of bytes: the least n >= 1 with -2^(8n-1) <= x < 2^(8n-1) *)
Definition bitlen (y : Z) : Z := if y <=? 0 then 0 else Z.log2 y + 1.
Definition signed_len (x : Z) : Z := bitlen (if x <? 0 then - x - 1 else x) / 8 + 1.
Definition spec_to_signed_bytes_le (x : Z) : list Z :=
  let n := signed_len x in le_digits_n (Z.to_nat n) 256 (x mod 2 ^ (8 * n)).
Definition spec_to_signed_bytes_be (x : Z) : list Z := rev (spec_to_signed_bytes_le x).
(** any length (sign-extension padding allowed): top bit of the most significant byte *)
Definition spec_from_signed_bytes_le (l : list Z) : Z :=
  match last_opt l with
  | None => 0
  | Some t => if t >? 127 then le_value 256 l - 256 ^ Z.of_nat (length l) else le_value 256 l
  end.
Definition spec_from_signed_bytes_be (l : list Z) : Z := spec_from_signed_bytes_le (rev l).

(** ** iterators: the abstract double-ended queue of remaining digits *)
Fixpoint dq_run (cs : list call) (q : list Z) : list obs :=
  match cs with
  | [] => []
  | CNext :: r => OItem (hd_error q) :: dq_run r (tl q)
  | CBack :: r => OItem (last_opt q) :: dq_run r (removelast q)
  | CNth k :: r => OItem (hd_error (skipn k q)) :: dq_run r (tl (skipn k q))
  | CLen :: r => OLen (Z.of_nat (length q)) :: dq_run r q
  | CHint :: r => OHint (Z.of_nat (length q)) (Some (Z.of_nat (length q))) :: dq_run r q
  | CLast :: _ => [OItem (last_opt q)]
  | CCount :: _ => [OLen (Z.of_nat (length q))]
  end.
Definition spec_iter32 (n : Z) (cs : list call) : list obs := dq_run cs (le_digits (2 ^ 32) n).
Definition spec_iter64 (n : Z) (cs : list call) : list obs := dq_run cs (le_digits (2 ^ 64) n).

(** ** serde *)
Definition spec_ser (n : Z) : Z * list Z :=
  let ds := le_digits (2 ^ 32) n in (Z.of_nat (length ds), ds).
Definition spec_de (w : list Z) : option Z :=
  if forallb is_word w then Some (le_value (2 ^ 32) w) else None.
Definition spec_iser (x : Z) : Z * (Z * list Z) := (Z.sgn x, spec_ser (Z.abs x)).
Definition spec_ide (v : Z) (w : list Z) : option Z :=
  if (v =? -1) || (v =? 0) || (v =? 1) then
    match spec_de w with Some m => Some (v * m) | None => None end
  else None.
