(* SpecBits.v — Z-level meaning of the bitwise / shift / bit-query API (C07).
   Integers are read as their infinite two's-complement expansion, which is exactly what
   Coq's Z.land / Z.lor / Z.lxor / Z.testbit / Z.setbit / Z.clearbit do. *)
From BigNum Require Import Base.
Open Scope Z_scope.

Definition spec_and (x y : Z) : outcome Z := Ret (Z.land x y).
Definition spec_or (x y : Z) : outcome Z := Ret (Z.lor x y).
Definition spec_xor (x y : Z) : outcome Z := Ret (Z.lxor x y).
Definition spec_not (x : Z) : outcome Z := Ret (- x - 1).

(** number of 64-bit digits of |x| *)
Definition zdigits (x : Z) : Z := if x =? 0 then 0 else Z.log2 (Z.abs x) / 64 + 1.
(** a buffer of [n] digits cannot even be requested (n * 8 > isize::MAX) *)
Definition too_big (n : Z) : bool := 2 ^ 60 <=? n.

(** x << s = x * 2^s; negative amounts panic; a result whose digit count cannot be allocated
    is a capacity-overflow panic (amounts between "does not fit in RAM" and that limit are out
    of scope, C14). *)
Definition spec_shl (x s : Z) : outcome Z :=
  if s <? 0 then Panic NegShift
  else if x =? 0 then Ret 0
  else if (0 <? s / 64) && too_big (s / 64 + (zdigits x + 1)) then Panic MemOverflow
  else Ret (x * 2 ^ s).

(** x >> s = floor (x / 2^s)  (Z's `/` rounds toward minus infinity) *)
Definition spec_shr (x s : Z) : outcome Z :=
  if s <? 0 then Panic NegShift else Ret (x / 2 ^ s).
(** the same value without forming 2^s for astronomically large s (run by the driver;
    equality with [x / 2^s] is BitsProofs.shr_exec_eq) *)
Definition shr_exec (x s : Z) : Z :=
  if Z.log2 (Z.abs x) <? s then (if x <? 0 then -1 else 0) else x / 2 ^ s.
Definition spec_shr_exec (x s : Z) : outcome Z :=
  if s <? 0 then Panic NegShift else Ret (shr_exec x s).

Definition spec_bit (x i : Z) : outcome bool := Ret (Z.testbit x i).
Definition spec_set_bit (x i : Z) (v : bool) : outcome Z :=
  Ret (if v then Z.setbit x i else Z.clearbit x i).
(** the same without touching bit positions far above the value (run by the driver for
    indices up to u64::MAX; equalities are BitsProofs.bit_exec_eq / set_bit_exec_eq) *)
Definition far_above (x i : Z) : bool := Z.log2 (Z.abs x) + 1 <? i.
Definition bit_exec (x i : Z) : bool := if far_above x i then x <? 0 else Z.testbit x i.
Definition set_bit_exec (x i : Z) (v : bool) : Z :=
  if v then (if far_above x i && (x <? 0) then x else Z.lor x (2 ^ i))
  else (if far_above x i && (0 <=? x) then x else Z.ldiff x (2 ^ i)).
Definition spec_bit_exec (x i : Z) : outcome bool := Ret (bit_exec x i).
Definition spec_set_bit_exec (x i : Z) (v : bool) : outcome Z := Ret (set_bit_exec x i v).

Definition spec_bits (x : Z) : Z := if x =? 0 then 0 else Z.log2 (Z.abs x) + 1.

(** index of the lowest set bit: x & -x isolates it *)
Definition ztz (x : Z) : Z := Z.log2 (Z.land x (- x)).
Definition spec_trailing_zeros (x : Z) : option Z := if x =? 0 then None else Some (ztz x).
Definition spec_trailing_ones (x : Z) : Z := ztz (Z.lnot x).
(** what these numbers mean (proved for [ztz] in BitsProofs.ztz_is_tz) *)
Definition is_tz (x k : Z) : Prop :=
  0 <= k /\ Z.testbit x k = true /\ forall j, 0 <= j < k -> Z.testbit x j = false.

Fixpoint pos_popcount (p : positive) : Z :=
  match p with xH => 1 | xO q => pos_popcount q | xI q => 1 + pos_popcount q end.
Definition spec_count_ones (x : Z) : Z := match x with Zpos p => pos_popcount p | _ => 0 end.
