(* SpecExtra.v — Z-level meaning of the extended constructors / operations of ExtraHist.v and of the
   comparison layer of ExtraOrd.v.  Only syntax (xctor, xop) and the `arbitrary` byte decoding
   (dependency behaviour) are shared with the model. *)
From BigNum Require Import Base SpecRadix RadixText Hist SpecHist ExtraOrd ExtraHist.
Open Scope Z_scope.

(** comparison operators on integers *)
Definition spec_ord (a b : Z) : ord_obs := mkOrd (Some (a ?= b)) (a <? b) (a <=? b) (b <? a) (b <=? a).

(** the vector of u64 digits the `arbitrary` crate decodes from the bytes, as an integer *)
Definition arb_val (b : list Z) : Z := val (fst (arb_vec_u64 (S (length b)) b)).

Definition sxconstruct (c : xctor) : kind * outcome Z :=
  match c with
  | XC c => let '(k, v) := sconstruct c in (k, Ret v)
  | XUStr t r => (KU, do x <- spec_from_str false t r; of_parse x 1430)
  | XIStr t r => (KI, do x <- spec_from_str true t r; of_parse x 1431)
  | XUParse b r => (KU, do x <- spec_parse_bytes false b r; of_opt x 1432)
  | XIParse b r => (KI, do x <- spec_parse_bytes true b r; of_opt x 1433)
  | XUPrim _ v => (KU, Ret v)
  | XIPrim _ v => (KI, Ret v)
  | XUArb b | XUArbRest b => (KU, Ret (arb_val b))
  | XIArb b | XIArbRest b =>
      (KI, Ret (let '(pos, r) := arb_bool b in (if pos then 1 else -1) * arb_val r))
  end.

Definition sxhistory_trace (c : xctor) (ops : list xop) : kind * list (outcome Z) :=
  let '(k, ov) := sxconstruct c in
  (k, match (do v <- ov; sguard v) with
      | Ret v0 => Ret v0 :: strace k v0 (map xop_base ops)
      | e => [e]
      end).
Definition sxhistory (c : xctor) (ops : list xop) : kind * outcome Z :=
  let '(k, ov) := sxconstruct c in (k, do v <- ov; do v0 <- sguard v; srun k v0 (map xop_base ops)).
