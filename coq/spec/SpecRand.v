(* SpecRand.v — Z-level meaning of random generation (C18) as a function of the word stream.

   [cand n ws] is the property's "first ceil(n/32) 32-bit words taken as little-endian
   base-2^32 digits with the top word shifted down to the requested width".  Bounded sampling
   is "the first candidate below the bound".  A stream that ends too early is [OutOfFuel]. *)
From BigNum Require Import Base SpecSign.
Open Scope Z_scope.

Definition nwords (n : Z) : Z := (n + 31) / 32.          (* ceil(n/32) *)
Definition top_shift (n : Z) : Z := (32 - n mod 32) mod 32.

(** The candidate encoded by exactly [nwords n] words. *)
Definition cand (n : Z) (ws : list Z) : Z :=
  match ws with
  | [] => 0
  | _ => val32 (removelast ws) + 4294967296 ^ (Z.of_nat (length ws) - 1) * (last ws 0 / 2 ^ top_shift n)
  end.

Definition take_words (k : nat) (s : list Z) : outcome (list Z * list Z) :=
  if (length s <? k)%nat then OutOfFuel else Ret (firstn k s, skipn k s).

Definition spec_gen_biguint (n : Z) (s : list Z) : outcome (Z * list Z) :=
  do x <- take_words (Z.to_nat (nwords n)) s;
  let '(ws, r) := x in Ret (cand n ws, r).

Definition spec_bool (s : list Z) : outcome (bool * list Z) :=
  match s with [] => OutOfFuel | w :: r => Ret (Z.testbit w 31, r) end.

(** gen_bigint: magnitude candidate, then a sign word; a zero candidate whose sign word says
    "true" is re-drawn. *)
Fixpoint spec_gen_bigint_loop (fuel : nat) (n : Z) (s : list Z) : outcome (Z * list Z) :=
  match fuel with
  | O => OutOfFuel
  | S f =>
      do x <- spec_gen_biguint n s;
      let '(c, r) := x in
      do y <- spec_bool r;
      let '(b, r2) := y in
      if c =? 0 then (if b then spec_gen_bigint_loop f n r2 else Ret (0, r2))
      else Ret (if b then c else - c, r2)
  end.
Definition spec_gen_bigint (n : Z) (s : list Z) : outcome (Z * list Z) :=
  spec_gen_bigint_loop (S (length s)) n s.

(** The first candidate of [bits] bits that is below [bound]. *)
Fixpoint spec_below_loop (fuel : nat) (bits bound : Z) (s : list Z) : outcome (Z * list Z) :=
  match fuel with
  | O => OutOfFuel
  | S f =>
      do x <- spec_gen_biguint bits s;
      let '(c, r) := x in
      if c <? bound then Ret (c, r) else spec_below_loop f bits bound r
  end.
Definition spec_below (bound : Z) (s : list Z) : outcome (Z * list Z) :=
  if bound <=? 0 then Panic EmptyRange
  else spec_below_loop (S (length s)) (Z.log2 bound + 1) bound s.

(** Half-open and inclusive ranges (BigUint and BigInt alike). *)
Definition spec_range (lo hi : Z) (s : list Z) : outcome (Z * list Z) :=
  if hi <=? lo then Panic EmptyRange
  else do x <- spec_below (hi - lo) s; let '(c, r) := x in Ret (lo + c, r).
Definition spec_range_inclusive (lo hi : Z) (s : list Z) : outcome (Z * list Z) :=
  if hi <? lo then Panic EmptyRange
  else do x <- spec_below (hi + 1 - lo) s; let '(c, r) := x in Ret (lo + c, r).
