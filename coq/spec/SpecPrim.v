(* SpecPrim.v — Z-level meaning of the primitive integer / float conversions (C08).
   Independent of the digit-level model.  Floats are IEEE-754 bit patterns in [Z];
   a binary format is given by (prec = significand bits incl. the hidden one, ew = exponent
   field width): f64 = (53, 11), f32 = (24, 8). *)
From BigNum Require Import Base.
Open Scope Z_scope.

(** * Integers *)
(** range of a [bits]-wide two's-complement / unsigned type *)
Definition int_lo (signed : bool) (bits : Z) : Z := if signed then - 2 ^ (bits - 1) else 0.
Definition int_hi (signed : bool) (bits : Z) : Z :=
  if signed then 2 ^ (bits - 1) - 1 else 2 ^ bits - 1.
(** to_T x = Some x exactly when lo_T <= x <= hi_T *)
Definition spec_to_int (signed : bool) (bits : Z) (x : Z) : option Z :=
  if (int_lo signed bits <=? x) && (x <=? int_hi signed bits) then Some x else None.
(** into BigUint: the value, fails for negatives *)
Definition spec_ufrom_int (x : Z) : option Z := if x <? 0 then None else Some x.

(** * Rounding of non-negative integers, over Z *)
Definition blen (n : Z) : Z := if n <=? 0 then 0 else Z.log2 n + 1.

(** round-to-nearest, ties-to-even, of [n >= 0] to [p] significant bits:
    (m, e) with value m * 2^e, 0 <= m <= 2^p *)
Definition rne (p n : Z) : Z * Z :=
  let e := Z.max 0 (blen n - p) in
  let q := n / 2 ^ e in
  let r := n mod 2 ^ e in
  let m := if 2 * r <? 2 ^ e then q
           else if 2 ^ e <? 2 * r then q + 1
           else if Z.even q then q else q + 1 in
  (m, e).
Definition rne_val (p n : Z) : Z := let '(m, e) := rne p n in m * 2 ^ e.

(** round-to-odd to [k] bits: the top [k] bits, least significant one or-ed with
    "any lower bit set" (the scaled-down mantissa; the exponent is [blen n - k]) *)
Definition rodd (k n : Z) : Z :=
  let e := Z.max 0 (blen n - k) in
  Z.lor (n / 2 ^ e) (if n mod 2 ^ e =? 0 then 0 else 1).

(** * Floats *)
(** bit pattern of the positive finite value m * 2^e (0 < m <= 2^prec, normal range) *)
Definition fl_encode (prec ew m e : Z) : Z :=
  if m <=? 0 then 0
  else
    let L := blen m in
    let E := e + L - 1 + (2 ^ (ew - 1) - 1) in
    let frac := if L <=? prec then m * 2 ^ (prec - L) - 2 ^ (prec - 1) else 0 in
    E * 2 ^ (prec - 1) + frac.
Definition fl_inf (prec ew : Z) : Z := (2 ^ ew - 1) * 2 ^ (prec - 1).

(** to_f64 / to_f32 of v >= 0: the nearest float, ties to even; +inf when the rounded value
    is beyond the finite range (>= 2^emax+1, i.e. 2^1024 / 2^128) *)
Definition spec_to_float (prec ew v : Z) : Z :=
  let '(m, e) := rne prec v in
  if 2 ^ (2 ^ (ew - 1)) <=? m * 2 ^ e then fl_inf prec ew else fl_encode prec ew m e.
(** signed: sign bit + magnitude *)
Definition spec_ito_float (prec ew v : Z) : Z :=
  (if v <? 0 then 2 ^ (prec - 1 + ew) else 0) + spec_to_float prec ew (Z.abs v).

(** the float with bit pattern [b], truncated toward zero; None for NaN and infinities *)
Definition spec_float_trunc (prec ew b : Z) : option Z :=
  let fb := prec - 1 in
  let s := b / 2 ^ (fb + ew) in
  let E := (b / 2 ^ fb) mod 2 ^ ew in
  let frac := b mod 2 ^ fb in
  if E =? 2 ^ ew - 1 then None
  else
    let m := if E =? 0 then frac else frac + 2 ^ fb in
    let e := Z.max E 1 - (2 ^ (ew - 1) - 1) - fb in
    let t := if 0 <=? e then m * 2 ^ e else m / 2 ^ (- e) in
    Some (if s =? 0 then t else - t).
(** from_f64 / from_f32 into BigInt and BigUint (negative results do not fit a BigUint) *)
Definition spec_ifrom_float (prec ew b : Z) : option Z := spec_float_trunc prec ew b.
Definition spec_ufrom_float (prec ew b : Z) : option Z :=
  match spec_float_trunc prec ew b with
  | None => None
  | Some t => if t <? 0 then None else Some t
  end.
