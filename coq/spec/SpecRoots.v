(* SpecRoots.v — Z-level meaning of the integer roots (C11): the floor n-th root, computed by
   bisection on the bits of the result (executable for any degree: the comparison `c^n <= x`
   first compares bit lengths, so `c^n` is only formed when it has at most ~2*bits(x) bits). *)
From BigNum Require Import Base.
Open Scope Z_scope.

(** [c^n <=? x] for [c >= 1] *)
Definition pow_le (c n x : Z) : bool :=
  if Z.log2 c * n >? Z.log2 x then false else c ^ n <=? x.

(** decide result bits k-1 .. 0, [r] = the bits decided so far *)
Fixpoint zroot_bits (k : nat) (n x r : Z) : Z :=
  match k with
  | O => r
  | S k' =>
      let c := r + 2 ^ Z.of_nat k' in
      zroot_bits k' n x (if pow_le c n x then c else r)
  end.

(** floor of the n-th root of x (n >= 1, x >= 0) *)
Definition zroot (n x : Z) : Z :=
  if x <=? 0 then 0 else zroot_bits (Z.to_nat (Z.log2 x / n + 1)) n x 0.

Definition spec_unth_root (x n : Z) : outcome Z :=
  if n =? 0 then Panic ZeroRoot else Ret (zroot n x).
Definition spec_usqrt (x : Z) : outcome Z := Ret (zroot 2 x).
Definition spec_ucbrt (x : Z) : outcome Z := Ret (zroot 3 x).

(** BigInt: truncation toward zero; even roots of negatives and degree 0 panic *)
Definition spec_inth_root (x n : Z) : outcome Z :=
  if (x <? 0) && Z.even n then Panic ImagRoot
  else if n =? 0 then Panic ZeroRoot
  else Ret (Z.sgn x * zroot n (Z.abs x)).
Definition spec_isqrt (x : Z) : outcome Z :=
  if x <? 0 then Panic ImagRoot else Ret (zroot 2 x).
Definition spec_icbrt (x : Z) : outcome Z := Ret (Z.sgn x * zroot 3 (Z.abs x)).
