(* SpecAddSub.v — Z-level meaning of the addition/subtraction API (C01). *)
From BigNum Require Import Base.
Open Scope Z_scope.

Definition spec_uadd (a b : Z) : outcome Z := Ret (a + b).
Definition spec_usub (a b : Z) : outcome Z :=
  if a <? b then Panic SubUnderflow else Ret (a - b).
Definition spec_uchecked_sub (a b : Z) : outcome (option Z) :=
  Ret (if a <? b then None else Some (a - b)).
Definition spec_iadd (a b : Z) : outcome Z := Ret (a + b).
Definition spec_isub (a b : Z) : outcome Z := Ret (a - b).
Definition spec_ucmp (a b : Z) : outcome comparison := Ret (a ?= b).
