(* U32DigitsLastOld.v — the defect fixed in /repo by ace985c (known_findings.txt, C09):
   before the fix, `U32Digits::last` was computed from the slice alone,
     self.data.last().map(|&last| { let hi = (last >> 32) as u32; if hi == 0 { last as u32 } else { hi } })
   ignoring the digits already consumed from the front.  Modelled here next to the current
   code: it does not refine the deque, the fixed `last = next_back` does (IterProofs.it_last_spec). *)
From BigNum Require Import Base BaseLemmas Iter SpecBytes BytesLemmas IterProofs Extracted.
Open Scope Z_scope.

Definition it_last_old (s : u32it) : option Z :=
  match last_opt (it_data s) with
  | Some last => Some (if hi32 last =? 0 then lo32 last else hi32 last)
  | None => None
  end.

(** BigUint(5).iter_u32_digits(): next(); last()  returned Some(5), the deque says None *)
Example u32digits_last_old_refuted :
  let s := snd (it_next Extracted.iter (it_new Extracted.iter [5])) in
  inv s /\ abs s = [] /\ it_last_old s = Some 5 /\ it_last Extracted.iter s = None.
Proof. cbv zeta. repeat split; vm_compute; try reflexivity; intros; discriminate. Qed.
