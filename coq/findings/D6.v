(* D6.v — documentation of the repaired defect D6 (property C08).
   The OLD loop of high_bits_to_u64 decremented `bits` by `bits_want` instead of `digit_bits`;
   from the third digit on, `digit_bits` then no longer was 64, so the upper part of the lower
   digits never reached the sticky bit.  The model is parameterised by the operand of
   `bits -= …` (extracted from the source), so the old loop is the same model at
   [pp_hb_sub := HBitsWant].  On the witness below it differs from the 64-bit round-to-odd of
   the value, and to_f64 returned ...d4 where round-to-nearest-even is ...d5. *)
From BigNum Require Import Base Prim SpecPrim.
Open Scope Z_scope.

Definition prim_fixed : prim_params := {|
  pp_hb_sub := HDigitBits; pp_hb_width := 64;
  pp_hb_shr := (HDigitBits, HBitsWant); pp_hb_guard := (HDigitBits, HBitsWant);
  pp_hb_mask_c := 64; pp_hb_mask := (HDigitBits, HBitsWant);
  pp_f64_cmp := Cgt; pp_f64_max := 1024; pp_f32_cmp := Cgt; pp_f32_max := 128;
  pp_i64_edge := 63; pp_i128_edge := 127;
  pp_u64_cmp := Cge; pp_u64_lim := 64; pp_u128_cmp := Cge; pp_u128_lim := 128 |}.

(** the code before commit bdc4364: `bits -= bits_want;` *)
Definition prim_old : prim_params := {|
  pp_hb_sub := HBitsWant; pp_hb_width := 64;
  pp_hb_shr := (HDigitBits, HBitsWant); pp_hb_guard := (HDigitBits, HBitsWant);
  pp_hb_mask_c := 64; pp_hb_mask := (HDigitBits, HBitsWant);
  pp_f64_cmp := Cgt; pp_f64_max := 1024; pp_f32_cmp := Cgt; pp_f32_max := 128;
  pp_i64_edge := 63; pp_i128_edge := 127;
  pp_u64_cmp := Cge; pp_u64_lim := 64; pp_u128_cmp := Cge; pp_u128_lim := 128 |}.

Definition d6_witness : Z := 0xadac7f77c5a6a4 * 2 ^ 108 + 2 ^ 50.

Lemma high_bits_old_refuted :
  canonb (enc d6_witness) = true /\
  high_bits_to_u64 prim_old (enc d6_witness) = Ret 0xadac7f77c5a6a400 /\
  rodd 64 d6_witness = 0xadac7f77c5a6a401 /\
  high_bits_to_u64 prim_old (enc d6_witness) <> Ret (rodd 64 d6_witness) /\
  uto_f64 prim_old (enc d6_witness) = Ret 0x4a25b58feef8b4d4 /\
  spec_to_float 53 11 d6_witness = 0x4a25b58feef8b4d5.
Proof. repeat split; try (vm_compute; reflexivity). vm_compute. discriminate. Qed.

Lemma high_bits_fixed_on_witness :
  high_bits_to_u64 prim_fixed (enc d6_witness) = Ret (rodd 64 d6_witness) /\
  uto_f64 prim_fixed (enc d6_witness) = Ret (spec_to_float 53 11 d6_witness).
Proof. split; vm_compute; reflexivity. Qed.
