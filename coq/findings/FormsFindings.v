(* FormsFindings.v — C10 finding D4 (fixed in /repo by dc3abd4), kept as a refutation witness.
   Before the fix the SIGNED primitive types used `impl_rem_assign_scalar!($scalar, to_iN)`:
       *self = match other.to_iN() { None => *self, Some(0) => panic!(..), Some(v) => *self % v };
   `to_iN` of the divisor is None as soon as the divisor exceeds iN::MAX, so
   `iN::MIN %= &BigUint::from(2^(N-1))` left MIN instead of 0. *)
From Coq Require Import ZArith Bool.
From BigNum Require Import Base Forms FormsLeaves.
Open Scope Z_scope.

Definition srem_assign_old (t : sty) (s u : Z) : outcome Z :=
  if shi t <? u then Ret s                    (* other.to_iN() = None *)
  else if u =? 0 then Panic DivZero
  else Ret (Z.rem s u).

Example leaf_rem_assign_signed_refuted :
  srem_assign_old Ti8 (-128) 128 = Ret (-128) /\ zsem FamU OpRem (-128) 128 = Ret 0 /\
  srem_assign_old Ti64 (- 2 ^ 63) (2 ^ 63) = Ret (- 2 ^ 63) /\ zsem FamU OpRem (- 2 ^ 63) (2 ^ 63) = Ret 0 /\
  (* the repaired macro (FormsLeaves.srem_assign, proved for all inputs in leaf_rem_assign_spec) *)
  srem_assign Ti8 (-128) 128 = Ret 0 /\ srem_assign Ti64 (- 2 ^ 63) (2 ^ 63) = Ret 0.
Proof. vm_compute. repeat split; reflexivity. Qed.
