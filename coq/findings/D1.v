(* D1 — documentation of a repaired defect (fix: 155d053): before the repair
   `checked_div_rem_euclid` had no zero test for either type, so `checked_div_rem_euclid(x, 0)`
   panicked with "attempt to divide by zero" instead of returning None (C03, C14).
   The model with the guard-presence parameter switched off reproduces the old behaviour. *)
From BigNum Require Import Base X86 AddSub Div SpecDiv Extracted.
Open Scope Z_scope.

Definition div_old : div_params :=
  let p := Extracted.div in
  {| dp_as := dp_as p; dp_a0_cmp := dp_a0_cmp p; dp_r_cmp := dp_r_cmp p; dp_q_cmp := dp_q_cmp p;
     dp_borrow_cmp := dp_borrow_cmp p; dp_pre_val := dp_pre_val p; dp_pre_ref := dp_pre_ref p;
     dp_shift_cmp := dp_shift_cmp p; dp_u32_short := dp_u32_short p;
     dp_g_udiv := dp_g_udiv p; dp_g_udiv_euclid := dp_g_udiv_euclid p; dp_g_urem_euclid := dp_g_urem_euclid p;
     dp_g_udiv_rem_euclid := false;
     dp_g_idiv := dp_g_idiv p; dp_g_idiv_euclid := dp_g_idiv_euclid p; dp_g_irem_euclid := dp_g_irem_euclid p;
     dp_g_idiv_rem_euclid := false;
     dp_g_idiv_inherent := dp_g_idiv_inherent p |}.

Lemma checked_div_rem_euclid_old_refuted :
  uchecked_div_rem_euclid div_old [5] [] = Panic DivZero /\
  ichecked_div_rem_euclid div_old (mkint Plus [5]) (mkint NoSign []) = Panic DivZero /\
  (* the repaired code returns None *)
  uchecked_div_rem_euclid Extracted.div [5] [] = Ret None /\
  ichecked_div_rem_euclid Extracted.div (mkint Plus [5]) (mkint NoSign []) = Ret None.
Proof. repeat split; vm_compute; reflexivity. Qed.
