(* D2.v — finding D2 (DESIGN §7): before the fix, BigInt::modinv had no zero guard: for a
   modulus of +-1 the unsigned inverse is 0 and the sign arm for a negative operand computed
   |m| - 0 = |m|, i.e. the result was  1  for (-5, 1)  and  -1  for (5, -1) — outside the
   documented intervals [0, m) resp. (m, 0].  The OLD code is the same model with the
   source-extracted flag [mp_inv_zero_guard] cleared; everything else is as extracted. *)
From BigNum Require Import Base Monty Modpow SpecModpow ModpowInst Extracted.
Open Scope Z_scope.

Definition modpow_old : modpow_params := {|
  mp_window := mp_window modpow; mp_cx_cmp := mp_cx_cmp modpow; mp_cy_cmp := mp_cy_cmp modpow;
  mp_c_cmp := mp_c_cmp modpow; mp_fin1_cmp := mp_fin1_cmp modpow; mp_fin2_cmp := mp_fin2_cmp modpow;
  mp_odd_monty := mp_odd_monty modpow; mp_pow_arms := mp_pow_arms modpow;
  mp_inv_arms := mp_inv_arms modpow;
  mp_inv_zero_guard := false |}.

Theorem bigint_modinv_old_refuted :
  r_imodinv modpow_old (mkint Minus [5]) (mkint Plus [1]) = Ret (Some (mkint Plus [1])) /\
  r_imodinv modpow_old (mkint Plus [5]) (mkint Minus [1]) = Ret (Some (mkint Minus [1])) /\
  ~ modinv_rel (-5) 1 (Some 1) /\ ~ modinv_rel 5 (-1) (Some (-1)).
Proof.
  split; [vm_compute; reflexivity|]. split; [vm_compute; reflexivity|].
  split; intros (R & _); unfold in_range in R; lia.
Qed.

(* the current (fixed) source returns zero on the same inputs *)
Example bigint_modinv_fixed_witnesses :
  r_imodinv modpow (mkint Minus [5]) (mkint Plus [1]) = Ret (Some (mkint NoSign [])) /\
  r_imodinv modpow (mkint Plus [5]) (mkint Minus [1]) = Ret (Some (mkint NoSign [])).
Proof. split; vm_compute; reflexivity. Qed.
