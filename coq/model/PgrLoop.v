(* PgrLoop.v — a fuelled `while` combinator whose fuel is a binary [positive]: the loop body
   runs at most [Pos.to_nat fuel] times, but the recursion is structural on the *bits* of the
   fuel, so a fuel as large as an operand's value (2^1000 …) costs nothing when the loop exits
   early.  Used by pow / gcd / extended_gcd / roots.  Definitions only. *)
From BigNum Require Import Base.
Open Scope Z_scope.

Section Loop.
Context {S R : Type}.
Variable step : S -> outcome (S + R).     (* inl s' = `continue` with s', inr r = `break` with r *)

Fixpoint loop_pos (fuel : positive) (s : S) : outcome (S + R) :=
  match fuel with
  | xH => step s
  | xO f =>
      do r <- loop_pos f s;
      match r with inl s' => loop_pos f s' | inr x => Ret (inr x) end
  | xI f =>
      do r0 <- step s;
      match r0 with
      | inr x => Ret (inr x)
      | inl s0 =>
          do r <- loop_pos f s0;
          match r with inl s' => loop_pos f s' | inr x => Ret (inr x) end
      end
  end.

Definition run_loop (fuel : positive) (s : S) : outcome R :=
  do r <- loop_pos fuel s;
  match r with inr x => Ret x | inl _ => OutOfFuel end.
End Loop.

(** Comparison operators applied to an [Ordering] (`a < b` on BigUint is `cmp(a,b) == Less`). *)
Definition cmpop_ord (op : cmpop) (c : comparison) : bool :=
  cmp_eval op (match c with Lt => -1 | Eq => 0 | Gt => 1 end) 0.

(** Spec-level stand-ins for the big operations the pow / gcd / roots models are parameterised
    by (exactly the right-hand sides of Mul.umul_spec / Div.udivrem_spec).  Used by the driver
    and the in-Coq cross-check until the real Mul.umul / Div.udivrem are plugged in. *)
Definition spec_bmul (a b : list Z) : outcome (list Z) := Ret (enc (val a * val b)).
Definition spec_bdivrem (a b : list Z) : outcome (list Z * list Z) :=
  if val b =? 0 then Panic DivZero else Ret (enc (val a / val b), enc (val a mod val b)).
