(* Bytes.v — executable model of the byte / digit-vector import and export API:
   src/biguint.rs  new, from_slice, assign_from_slice, u32_chunk_to_u64, from_bytes_be/le,
                   to_bytes_be/le, to_u32_digits, to_u64_digits;
   src/bigint.rs   new, from_slice, assign_from_slice, from_bytes_*, to_bytes_*, to_u32/u64_digits;
   src/bigint/convert.rs  from_signed_bytes_be/le, to_signed_bytes_be/le, twos_complement.
   Bytes and u32 words are [Z] in [list Z].  Definitions only.  Internal sites 920-929.
   The zero / empty special cases of to_bytes_le / from_bytes_le and the decision points of the
   four signed-bytes functions are read from the source on every run (tools/extractors/bytes.py
   -> [bytes_params]); the proofs are generic under [bytes_ok]. *)
From BigNum Require Import Base SrcLit BitDigits Iter.
Open Scope Z_scope.

(** Source-extracted decision points (tools/extractors/bytes.py). *)
Record fsb_params := {        (* from_signed_bytes_{be,le} *)
  fs_cmp : cmpop;             (* `Some(v) if *v > 0x7f`                  -> Cgt *)
  fs_k : Z;                   (*                                          -> 127 *)
  fs_neg : sign;              (* `.. => Sign::Minus`                      -> Minus *)
  fs_pos : sign;              (* `Some(_) => Sign::Plus`                  -> Plus *)
  fs_tc_eq : bool;            (* `if sign == Sign::Minus` is an `==`      -> true *)
  fs_tc_sign : sign           (*                                          -> Minus *)
}.
Record tsb_params := {        (* to_signed_bytes_{be,le} *)
  ts_hi_cmp : cmpop;          (* `first_byte > 0x7f`                      -> Cgt *)
  ts_hi_k : Z;                (*                                          -> 127 *)
  ts_exc_neg : bool;          (* `&& !( .. )` has its `!`                 -> true *)
  ts_exc_cmp : cmpop;         (* `first_byte == 0x80`                     -> Ceq *)
  ts_exc_k : Z;               (*                                          -> 128 *)
  ts_exc_skip : nat;          (* `bytes.iter().skip(1).all(Zero::is_zero)`-> 1 *)
  ts_exc_eq : bool;           (* `&& x.sign == Sign::Minus` is an `==`    -> true *)
  ts_exc_sign : sign;         (*                                          -> Minus *)
  ts_ext : Z;                 (* `bytes.insert(0, 0)` / `bytes.push(0)`   -> 0 *)
  ts_tc_eq : bool;            (* `if x.sign == Sign::Minus` is an `==`    -> true *)
  ts_tc_sign : sign           (*                                          -> Minus *)
}.
Record bytes_params := {
  byp_zero_neg : bool;        (* to_bytes_le: `if self.is_zero()` is negated        -> false *)
  byp_zero_bytes : list Z;    (* to_bytes_le: `vec![0]`                             -> [0] *)
  byp_to_bits : Z;            (* to_bytes_le: `to_bitwise_digits_le(self, 8)`       -> 8 *)
  byp_empty_neg : bool;       (* from_bytes_le: `if bytes.is_empty()` is negated    -> false *)
  byp_from_bits : Z;          (* from_bytes_le: `from_bitwise_digits_le(bytes, 8)`  -> 8 *)
  byp_fs_be : fsb_params;
  byp_fs_le : fsb_params;
  byp_ts_be : tsb_params;
  byp_ts_le : tsb_params
}.


(** * BigUint from u32 words *)

(** `slice.chunks(2).map(u32_chunk_to_u64)`:
    `digit = chunk[0] as u64; if let Some(&hi) = chunk.get(1) { digit |= (hi as u64) << 32 }` *)
Fixpoint pair_words (w : list Z) : list Z :=
  match w with
  | [] => []
  | [lo] => [lo]
  | lo :: hi :: r => Z.lor lo ((hi * 2 ^ 32) mod B) :: pair_words r
  end.

(** assign_from_slice: clear, extend, normalize (the previous content is irrelevant) *)
Definition uassign_from_slice (self : list Z) (slice : list Z) : list Z :=
  strip (pair_words slice).
Definition ufrom_slice (slice : list Z) : list Z := uassign_from_slice [] slice.
Definition unew (digits : list Z) : list Z := uassign_from_slice [] digits.

(** * BigUint from / to bytes *)
Definition ufrom_bytes_le (p : bytes_params) (bytes : list Z) : outcome (list Z) :=
  if blit (byp_empty_neg p) (is_nil bytes) then Ret [] else from_bitwise_digits_le bytes (byp_from_bits p).
Definition ufrom_bytes_be (p : bytes_params) (bytes : list Z) : outcome (list Z) :=
  if is_nil bytes then Ret [] else ufrom_bytes_le p (rev bytes).

Definition uto_bytes_le (p : bytes_params) (u : list Z) : outcome (list Z) :=
  if blit (byp_zero_neg p) (is_nil u) then Ret (byp_zero_bytes p) else to_bitwise_digits_le u (byp_to_bits p).
Definition uto_bytes_be (p : bytes_params) (u : list Z) : outcome (list Z) :=
  do v <- uto_bytes_le p u; Ret (rev v).

(** to_u32_digits = iter_u32_digits().collect(), to_u64_digits = iter_u64_digits().collect() *)
Definition uto_u32_digits (ip : iter_params) (u : list Z) : outcome (list Z) := it_collect ip (it_new ip u).
Definition uto_u64_digits (u : list Z) : list Z := u.

(** * BigInt constructors *)
Definition inew (s : sign) (digits : list Z) : bigint := from_biguint s (unew digits).
Definition ifrom_slice (s : sign) (slice : list Z) : bigint := from_biguint s (ufrom_slice slice).
Definition iassign_from_slice (self : bigint) (s : sign) (slice : list Z) : bigint :=
  match s with
  | NoSign => mkint NoSign []                        (* set_zero *)
  | _ => let d := uassign_from_slice (mag self) slice in
         mkint (if is_nil d then NoSign else s) d
  end.

Definition ifrom_bytes_le (p : bytes_params) (s : sign) (bytes : list Z) : outcome bigint :=
  do m <- ufrom_bytes_le p bytes; Ret (from_biguint s m).
Definition ifrom_bytes_be (p : bytes_params) (s : sign) (bytes : list Z) : outcome bigint :=
  do m <- ufrom_bytes_be p bytes; Ret (from_biguint s m).
Definition ito_bytes_le (p : bytes_params) (x : bigint) : outcome (sign * list Z) :=
  do v <- uto_bytes_le p (mag x); Ret (sg x, v).
Definition ito_bytes_be (p : bytes_params) (x : bigint) : outcome (sign * list Z) :=
  do v <- uto_bytes_be p (mag x); Ret (sg x, v).
Definition ito_u32_digits (ip : iter_params) (x : bigint) : outcome (sign * list Z) :=
  do v <- uto_u32_digits ip (mag x); Ret (sg x, v).
Definition ito_u64_digits (x : bigint) : sign * list Z := (sg x, uto_u64_digits (mag x)).

(** * Two's complement and the signed-bytes forms *)

(** twos_complement over an iterator starting at the least significant byte:
    `*d = !*d; if carry { *d = d.wrapping_add(1); carry = d.is_zero(); }` *)
Fixpoint twos_complement (carry : bool) (l : list Z) : list Z :=
  match l with
  | [] => []
  | d :: r =>
      let nd := 255 - d in
      if carry then
        let d' := (nd + 1) mod 256 in
        d' :: twos_complement (d' =? 0) r
      else nd :: twos_complement false r
  end.
Definition twos_complement_le (l : list Z) : list Z := twos_complement true l.
Definition twos_complement_be (l : list Z) : list Z := rev (twos_complement true (rev l)).

Definition all_zero (l : list Z) : bool := forallb (fun d => d =? 0) l.

(** `let sign = match digits.last() { Some(v) if *v > 0x7f => Minus, Some(_) => Plus, None => return ZERO };
    if sign == Minus { twos_complement(copy); from_biguint(sign, from_bytes(copy)) }
    else { from_biguint(sign, from_bytes(digits)) }` *)
Definition from_signed_bytes_le (p : bytes_params) (digits : list Z) : outcome bigint :=
  let f := byp_fs_le p in
  match last_opt digits with
  | None => Ret (mkint NoSign [])
  | Some v =>
      let s := if cmp_eval (fs_cmp f) v (fs_k f) then fs_neg f else fs_pos f in
      if sign_test (fs_tc_eq f) s (fs_tc_sign f) then
        do m <- ufrom_bytes_le p (twos_complement_le digits); Ret (from_biguint s m)
      else
        do m <- ufrom_bytes_le p digits; Ret (from_biguint s m)
  end.
Definition from_signed_bytes_be (p : bytes_params) (digits : list Z) : outcome bigint :=
  let f := byp_fs_be p in
  match digits with
  | [] => Ret (mkint NoSign [])
  | v :: _ =>
      let s := if cmp_eval (fs_cmp f) v (fs_k f) then fs_neg f else fs_pos f in
      if sign_test (fs_tc_eq f) s (fs_tc_sign f) then
        do m <- ufrom_bytes_be p (twos_complement_be digits); Ret (from_biguint s m)
      else
        do m <- ufrom_bytes_be p digits; Ret (from_biguint s m)
  end.

(** `if b > 0x7f && !(b == 0x80 && <the other bytes>.all(is_zero) && x.sign == Minus) { extend by one byte }
    if x.sign == Minus { twos_complement }` *)
Definition to_signed_bytes_le (p : bytes_params) (x : bigint) : outcome (list Z) :=
  let t := byp_ts_le p in
  do bytes <- uto_bytes_le p (mag x);
  let last_byte := match last_opt bytes with Some b => b | None => 0 end in
  let bytes1 :=
    if cmp_eval (ts_hi_cmp t) last_byte (ts_hi_k t)
       && blit (ts_exc_neg t)
            (cmp_eval (ts_exc_cmp t) last_byte (ts_exc_k t) && all_zero (skipn (ts_exc_skip t) (rev bytes))
             && sign_test (ts_exc_eq t) (sg x) (ts_exc_sign t))
    then bytes ++ [ts_ext t] else bytes in
  Ret (if sign_test (ts_tc_eq t) (sg x) (ts_tc_sign t) then twos_complement_le bytes1 else bytes1).
Definition to_signed_bytes_be (p : bytes_params) (x : bigint) : outcome (list Z) :=
  let t := byp_ts_be p in
  do bytes <- uto_bytes_be p (mag x);
  let first_byte := match bytes with b :: _ => b | [] => 0 end in
  let bytes1 :=
    if cmp_eval (ts_hi_cmp t) first_byte (ts_hi_k t)
       && blit (ts_exc_neg t)
            (cmp_eval (ts_exc_cmp t) first_byte (ts_exc_k t) && all_zero (skipn (ts_exc_skip t) bytes)
             && sign_test (ts_exc_eq t) (sg x) (ts_exc_sign t))
    then ts_ext t :: bytes else bytes in
  Ret (if sign_test (ts_tc_eq t) (sg x) (ts_tc_sign t) then twos_complement_be bytes1 else bytes1).
