(* Bytes.v — executable model of the byte / digit-vector import and export API:
   src/biguint.rs  new, from_slice, assign_from_slice, u32_chunk_to_u64, from_bytes_be/le,
                   to_bytes_be/le, to_u32_digits, to_u64_digits;
   src/bigint.rs   new, from_slice, assign_from_slice, from_bytes_*, to_bytes_*, to_u32/u64_digits;
   src/bigint/convert.rs  from_signed_bytes_be/le, to_signed_bytes_be/le, twos_complement.
   Bytes and u32 words are [Z] in [list Z].  Definitions only.  Internal sites 920-929. *)
From BigNum Require Import Base BitDigits Iter.
Open Scope Z_scope.

(** * BigUint from u32 words *)

(** `slice.chunks(2).map(u32_chunk_to_u64)`:
    `digit = chunk[0] as u64; if let Some(&hi) = chunk.get(1) { digit |= (hi as u64) << 32 }` *)
Fixpoint pair_words (w : list Z) : list Z :=
  match w with
  | [] => []
  | [lo] => [lo]
  | lo :: hi :: r => Z.lor lo ((hi * 2 ^ 32) mod B) :: pair_words r
  end.

(** assign_from_slice: clear, extend, normalize (the previous content is irrelevant) *)
Definition uassign_from_slice (self : list Z) (slice : list Z) : list Z :=
  strip (pair_words slice).
Definition ufrom_slice (slice : list Z) : list Z := uassign_from_slice [] slice.
Definition unew (digits : list Z) : list Z := uassign_from_slice [] digits.

(** * BigUint from / to bytes *)
Definition ufrom_bytes_le (bytes : list Z) : outcome (list Z) :=
  if is_nil bytes then Ret [] else from_bitwise_digits_le bytes 8.
Definition ufrom_bytes_be (bytes : list Z) : outcome (list Z) :=
  if is_nil bytes then Ret [] else ufrom_bytes_le (rev bytes).

Definition uto_bytes_le (u : list Z) : outcome (list Z) :=
  if is_nil u then Ret [0] else to_bitwise_digits_le u 8.
Definition uto_bytes_be (u : list Z) : outcome (list Z) :=
  do v <- uto_bytes_le u; Ret (rev v).

(** to_u32_digits = iter_u32_digits().collect(), to_u64_digits = iter_u64_digits().collect() *)
Definition uto_u32_digits (ip : iter_params) (u : list Z) : outcome (list Z) := it_collect ip (it_new ip u).
Definition uto_u64_digits (u : list Z) : list Z := u.

(** * BigInt constructors *)
Definition inew (s : sign) (digits : list Z) : bigint := from_biguint s (unew digits).
Definition ifrom_slice (s : sign) (slice : list Z) : bigint := from_biguint s (ufrom_slice slice).
Definition iassign_from_slice (self : bigint) (s : sign) (slice : list Z) : bigint :=
  match s with
  | NoSign => mkint NoSign []                        (* set_zero *)
  | _ => let d := uassign_from_slice (mag self) slice in
         mkint (if is_nil d then NoSign else s) d
  end.

Definition ifrom_bytes_le (s : sign) (bytes : list Z) : outcome bigint :=
  do m <- ufrom_bytes_le bytes; Ret (from_biguint s m).
Definition ifrom_bytes_be (s : sign) (bytes : list Z) : outcome bigint :=
  do m <- ufrom_bytes_be bytes; Ret (from_biguint s m).
Definition ito_bytes_le (x : bigint) : outcome (sign * list Z) :=
  do v <- uto_bytes_le (mag x); Ret (sg x, v).
Definition ito_bytes_be (x : bigint) : outcome (sign * list Z) :=
  do v <- uto_bytes_be (mag x); Ret (sg x, v).
Definition ito_u32_digits (ip : iter_params) (x : bigint) : outcome (sign * list Z) :=
  do v <- uto_u32_digits ip (mag x); Ret (sg x, v).
Definition ito_u64_digits (x : bigint) : sign * list Z := (sg x, uto_u64_digits (mag x)).

(** * Two's complement and the signed-bytes forms *)

(** twos_complement over an iterator starting at the least significant byte:
    `*d = !*d; if carry { *d = d.wrapping_add(1); carry = d.is_zero(); }` *)
Fixpoint twos_complement (carry : bool) (l : list Z) : list Z :=
  match l with
  | [] => []
  | d :: r =>
      let nd := 255 - d in
      if carry then
        let d' := (nd + 1) mod 256 in
        d' :: twos_complement (d' =? 0) r
      else nd :: twos_complement false r
  end.
Definition twos_complement_le (l : list Z) : list Z := twos_complement true l.
Definition twos_complement_be (l : list Z) : list Z := rev (twos_complement true (rev l)).

Definition all_zero (l : list Z) : bool := forallb (fun d => d =? 0) l.

Definition from_signed_bytes_le (digits : list Z) : outcome bigint :=
  match last_opt digits with
  | None => Ret (mkint NoSign [])
  | Some v =>
      if v >? 127 (* 0x7f *) then
        do m <- ufrom_bytes_le (twos_complement_le digits); Ret (from_biguint Minus m)
      else
        do m <- ufrom_bytes_le digits; Ret (from_biguint Plus m)
  end.
Definition from_signed_bytes_be (digits : list Z) : outcome bigint :=
  match digits with
  | [] => Ret (mkint NoSign [])
  | v :: _ =>
      if v >? 127 then
        do m <- ufrom_bytes_be (twos_complement_be digits); Ret (from_biguint Minus m)
      else
        do m <- ufrom_bytes_be digits; Ret (from_biguint Plus m)
  end.

Definition to_signed_bytes_le (x : bigint) : outcome (list Z) :=
  do bytes <- uto_bytes_le (mag x);
  let last_byte := match last_opt bytes with Some b => b | None => 0 end in
  let bytes1 :=
    if (last_byte >? 127)
       && negb ((last_byte =? 128) && all_zero (tl (rev bytes)) && sign_eqb (sg x) Minus)
    then bytes ++ [0] else bytes in
  Ret (if sign_eqb (sg x) Minus then twos_complement_le bytes1 else bytes1).
Definition to_signed_bytes_be (x : bigint) : outcome (list Z) :=
  do bytes <- uto_bytes_be (mag x);
  let first_byte := match bytes with b :: _ => b | [] => 0 end in
  let bytes1 :=
    if (first_byte >? 127)
       && negb ((first_byte =? 128) && all_zero (tl bytes) && sign_eqb (sg x) Minus)
    then 0 :: bytes else bytes in
  Ret (if sign_eqb (sg x) Minus then twos_complement_be bytes1 else bytes1).
