(* MulToomDeps.v — LOCAL STAND-IN (mul area) for the one division routine Toom-3 needs:
   `div_rem_digit(a, b)` of src/biguint/division.rs (x86_64: the `div_wide` loop, most
   significant digit first, then `normalized()`).  The division area models the same function as
   `Div.div_rem_digit`; once that is on `main` this file is to be deleted and `Mul.v` switched
   to `Div.div_rem_digit` (same signature, same spec).  Definitions only. *)
From BigNum Require Import Base.
Open Scope Z_scope.

(** the loop `for d in a.data.iter_mut().rev() { (q, r) = div_wide(rem, *d, b); *d = q; rem = r }`;
    [l] and the result are most-significant-digit first *)
Fixpoint div_digit_rev (b rem : Z) (l : list Z) : list Z * Z :=
  match l with
  | [] => ([], rem)
  | d :: r =>
      let n := rem * B + d in
      let '(q, rm) := div_digit_rev b (n mod b) r in ((n / b) :: q, rm)
  end.

Definition div_rem_digit (a : list Z) (b : Z) : outcome (list Z * Z) :=
  if b =? 0 then Panic DivZero
  else let '(q, r) := div_digit_rev b 0 (rev a) in Ret (strip (rev q), r).
