(* Roots.v — executable model of `fixpoint` and `Roots for BigUint` (src/biguint.rs) and
   `Roots for BigInt` (src/bigint.rs).  Definitions only.
   The initial guess is a PARAMETER [gf x n max_bits] (any value >= 1): the f64-derived guesses
   of the std build are not modelled; the no_std guess is [guess_nostd].  The u64 fast path is
   the floor-root specification [SpecRoots.zroot] (num-integer's primitive roots: dependency). *)
From BigNum Require Import Base X86 AddSub ShiftCore PgrLoop Pow Gcd SpecRoots.
Open Scope Z_scope.

Record roots_params := {
  rt_climb_cmp : cmpop;    (* fixpoint: `while x < xn`            -> Clt *)
  rt_sat_cmp : cmpop;      (* fixpoint: `xn.bits() > max_bits`    -> Cgt *)
  rt_descend_cmp : cmpop;  (* fixpoint: `while x > xn`            -> Cgt *)
  rt_bits_cmp : cmpop;     (* nth_root: `if bits <= n64`          -> Cle *)
  rt_nth_add : Z;          (* nth_root: `bits / n64 + 1`          -> 1 *)
  rt_sqrt_div : Z;         (* sqrt: `bits / 2 + 1`                -> 2 *)
  rt_sqrt_add : Z;         (*                                     -> 1 *)
  rt_cbrt_div : Z;         (* cbrt: `bits / 3 + 1`                -> 3 *)
  rt_cbrt_add : Z;         (*                                     -> 1 *)
  rt_nm1 : Z;              (* nth_root: `n_min_1 = n - 1`         -> 1 *)
  rt_sqrt_shr : Z;         (* sqrt step: `t >> 1`                 -> 1 *)
  rt_cbrt_shl : Z;         (* cbrt step: `(s << 1) + q`           -> 1 *)
  rt_cbrt_den : Z;         (* cbrt step: `t / 3u32`               -> 3 *)
}.

Definition pgr_of_u64 (v : Z) : list Z := if v =? 0 then [] else [v].

(** the `#[cfg(not(feature = "std"))]` guess: `BigUint::one() << max_bits` *)
Definition guess_nostd (x : list Z) (n max_bits : Z) : list Z := ushl [1] max_bits.

(** enough for: <= 3 climbing steps, then a strictly decreasing walk from max(g, 2^max_bits) *)
Definition root_fuel (g : list Z) (max_bits : Z) : positive :=
  Z.to_pos (Z.max (val g) (2 ^ max_bits) + 3).

Section WithBigOps.
Variable bmul : list Z -> list Z -> outcome (list Z).
Variable bdivrem : list Z -> list Z -> outcome (list Z * list Z).
Variable ap : addsub_params.
Variable pp : pow_params.
Variable p : roots_params.
Variable gf : list Z -> Z -> Z -> list Z.        (* initial guess (x, n, max_bits) *)

Definition bdiv (a b : list Z) : outcome (list Z) := do qr <- bdivrem a b; Ret (fst qr).

(** `fn fixpoint(mut x, max_bits, f)` *)
Definition climb_step (max_bits : Z) (f : list Z -> outcome (list Z)) (st : list Z * list Z)
  : outcome ((list Z * list Z) + (list Z * list Z)) :=
  let '(x, xn) := st in
  do c <- cmp_slice x xn;
  if cmpop_ord (rt_climb_cmp p) c then
    let x' := if cmp_eval (rt_sat_cmp p) (pgr_bits xn) max_bits then ushl [1] max_bits else xn in
    do xn' <- f x';
    Ret (inl (x', xn'))
  else Ret (inr (x, xn)).

Definition descend_step (f : list Z -> outcome (list Z)) (st : list Z * list Z)
  : outcome ((list Z * list Z) + list Z) :=
  let '(x, xn) := st in
  do c <- cmp_slice x xn;
  if cmpop_ord (rt_descend_cmp p) c then
    do xn' <- f xn;
    Ret (inl (xn, xn'))
  else Ret (inr x).

Definition fixpoint (fuel : positive) (x : list Z) (max_bits : Z) (f : list Z -> outcome (list Z))
  : outcome (list Z) :=
  do xn <- f x;
  do st <- run_loop (climb_step max_bits f) fuel (x, xn);
  run_loop (descend_step f) fuel st.

(** Newton steps *)
(** `let q = self / s.pow(n_min_1); let t = n_min_1 * s + q; t / n` *)
Definition nth_step (x : list Z) (n : Z) (s : list Z) : outcome (list Z) :=
  let n_min_1 := n - rt_nm1 p in
  do pw <- upow_prim_ref bmul pp s n_min_1;
  do q <- bdiv x pw;
  do ns <- bmul (pgr_of_u64 n_min_1) s;
  do t <- uadd ap ns q;
  bdiv t (pgr_of_u64 n).
(** `let q = self / s; let t = s + q; t >> 1` *)
Definition sqrt_step (x : list Z) (s : list Z) : outcome (list Z) :=
  do q <- bdiv x s;
  do t <- uadd ap s q;
  Ret (ushr t (rt_sqrt_shr p)).
(** `let q = self / (s * s); let t = (s << 1) + q; t / 3u32` *)
Definition cbrt_step (x : list Z) (s : list Z) : outcome (list Z) :=
  do s2 <- bmul s s;
  do q <- bdiv x s2;
  do t <- uadd ap (ushl s (rt_cbrt_shl p)) q;
  bdiv t (pgr_of_u64 (rt_cbrt_den p)).

Definition usqrt (x : list Z) : outcome (list Z) :=
  if pgr_is_zero x || pgr_is_one x then Ret x
  else match pgr_to_u64 x with
  | Some v => Ret (pgr_of_u64 (zroot 2 v))
  | None =>
      let bits := pgr_bits x in
      let max_bits := bits / rt_sqrt_div p + rt_sqrt_add p in
      let g := gf x 2 max_bits in
      fixpoint (root_fuel g max_bits) g max_bits (sqrt_step x)
  end.

Definition ucbrt (x : list Z) : outcome (list Z) :=
  if pgr_is_zero x || pgr_is_one x then Ret x
  else match pgr_to_u64 x with
  | Some v => Ret (pgr_of_u64 (zroot 3 v))
  | None =>
      let bits := pgr_bits x in
      let max_bits := bits / rt_cbrt_div p + rt_cbrt_add p in
      let g := gf x 3 max_bits in
      fixpoint (root_fuel g max_bits) g max_bits (cbrt_step x)
  end.

Definition unth_root (x : list Z) (n : Z) : outcome (list Z) :=
  if n =? 0 then Panic ZeroRoot                                  (* assert!(n > 0) *)
  else if pgr_is_zero x || pgr_is_one x then Ret x
  else if n =? 1 then Ret x
  else if n =? 2 then usqrt x
  else if n =? 3 then ucbrt x
  else
    let bits := pgr_bits x in
    if cmp_eval (rt_bits_cmp p) bits n then Ret [1]
    else match pgr_to_u64 x with
    | Some v => Ret (pgr_of_u64 (zroot n v))
    | None =>
        let max_bits := bits / n + rt_nth_add p in
        let g := gf x n max_bits in
        fixpoint (root_fuel g max_bits) g max_bits (nth_step x n)
    end.

(** `Roots for BigInt` *)
Definition inth_root (x : bigint) (n : Z) : outcome bigint :=
  if sign_eqb (sg x) Minus && Z.even n then Panic ImagRoot
  else do r <- unth_root (mag x) n; Ret (from_biguint (sg x) r).
Definition isqrt (x : bigint) : outcome bigint :=
  if sign_eqb (sg x) Minus then Panic ImagRoot
  else do r <- usqrt (mag x); Ret (from_biguint (sg x) r).
Definition icbrt (x : bigint) : outcome bigint :=
  do r <- ucbrt (mag x); Ret (from_biguint (sg x) r).
End WithBigOps.
