(* Rand.v — executable model of src/bigrand.rs (C18) over an explicit word stream.
   Definitions only.

   The RNG is a scripted generator: its state is the list of the 32-bit words it has not yet
   produced.  Dependency behaviour that is MODELLED, NOT VERIFIED (rand 0.8.x, rand_core 0.6.x,
   read from their sources and validated by the correspondence run against the harness's
   scripted `RngCore`):
     - `RngCore::next_u32` pops the next word; `next_u64` = two words, low half first;
       `fill_bytes` = the little-endian bytes of successive words;
     - `Rng::fill::<[u32]>(data)` = `if data.len() > 0 { try_fill_bytes(bytes of data) }` followed by
       `to_le` on each element, i.e. `data[i]` = the i-th next word (exactly `data.len()` words);
     - `Rng::gen::<bool>()` = `(next_u32() as i32) < 0`, i.e. the top bit of one word.
   Running out of scripted words is [OutOfFuel] (the harness RNG reports the same condition as
   result `err`); no other [OutOfFuel] can arise (RandProofs: fuel_irrelevant lemmas). *)
From BigNum Require Import Base SrcLit AddSub Sign.
Open Scope Z_scope.

Definition rng := list Z.

(** Source-extracted decision points of src/bigrand.rs (tools/extractors/rand.py); the proofs
    (RandProofs.v) are generic under [rand_ok]. *)
Record rand_params := {
  rnp_bits_rem_cmp : cmpop;     (* gen_bits: `if rem > 0`                                     -> Cgt *)
  rnp_bits_width : Z;           (* gen_bits: `data[last] >>= 32 - rem`                        -> 32 *)
  rnp_bits_sub : bool;          (*           ... is a `-`                                     -> true *)
  rnp_word_bits : Z;            (* gen_biguint: `bit_size.div_rem(&32)`                       -> 32 *)
  rnp_len_rem_cmp : cmpop;      (* gen_biguint: `(digits + (rem > 0) as u64)`                 -> Cgt *)
  rnp_native_bits : Z;          (* gen_biguint: `Integer::div_ceil(&bit_size, &64)`           -> 64 *)
  rnp_zero_neg : bool;          (* gen_bigint: `if biguint.is_zero()` is negated              -> false *)
  rnp_redraw_then : bool;       (* gen_bigint: `if self.gen() { continue; } else { NoSign }`: the re-draw is the then-branch -> true *)
  rnp_zero_sign : sign;         (*             ... the other branch                           -> NoSign *)
  rnp_true_sign : sign;         (* gen_bigint: `else if self.gen() { Plus }`                  -> Plus *)
  rnp_false_sign : sign;        (*             `else { Minus }`                               -> Minus *)
  rnp_below_assert_neg : bool;  (* gen_biguint_below: `assert!(!bound.is_zero())` has its `!` -> true *)
  rnp_below_cmp : cmpop;        (* gen_biguint_below: `if n < *bound { return n; }`           -> Clt *)
  rnp_urange_cmp : cmpop;       (* gen_biguint_range: `assert!( *lbound < *ubound )`          -> Clt *)
  rnp_urange_zero_neg : bool;   (* gen_biguint_range: `if lbound.is_zero()` is negated        -> false *)
  rnp_irange_cmp : cmpop;       (* gen_bigint_range: `assert!( *lbound < *ubound )`           -> Clt *)
  rnp_irange_lo_neg : bool;     (* gen_bigint_range: `if lbound.is_zero()` is negated         -> false *)
  rnp_irange_hi_neg : bool;     (* gen_bigint_range: `else if ubound.is_zero()` is negated    -> false *)
  rnp_uu_new_cmp : cmpop;       (* UniformBigUint::new: `assert!(low < high)`                 -> Clt *)
  rnp_uu_incl_cmp : cmpop;      (* UniformBigUint::new_inclusive: `assert!(low <= high)`      -> Cle *)
  rnp_ui_new_cmp : cmpop;       (* UniformBigInt::new: `assert!(low < high)`                  -> Clt *)
  rnp_ui_incl_cmp : cmpop       (* UniformBigInt::new_inclusive: `assert!(low <= high)`       -> Cle *)
}.

Definition next_u32 (s : rng) : outcome (Z * rng) :=
  match s with [] => OutOfFuel | w :: r => Ret (w, r) end.

(** `rng.fill(data)` for `data : &mut [u32]` of length [n] *)
Fixpoint fill_u32 (n : nat) (s : rng) : outcome (list Z * rng) :=
  match n with
  | O => Ret ([], s)
  | S n' => match s with
            | [] => OutOfFuel
            | w :: r => do x <- fill_u32 n' r; let '(ws, r') := x in Ret (w :: ws, r')
            end
  end.

(** `rng.gen::<bool>()` *)
Definition gen_bool (s : rng) : outcome (bool * rng) :=
  do x <- next_u32 s; let '(w, r) := x in Ret (2147483648 <=? w, r).

(** `gen_bits(rng, data, rem)`: fill, then `data[len-1] >>= 32 - rem` when `rem > 0`
    (a u32 shifted by 32 or more is a debug overflow panic). *)
Definition gen_bits (p : rand_params) (len : nat) (rem : Z) (s : rng) : outcome (list Z * rng) :=
  do x <- fill_u32 len s;
  let '(data, r) := x in
  if cmp_eval (rnp_bits_rem_cmp p) rem 0 then
    do _ <- assert_ (0 <? length data)%nat (Internal 1410);      (* data.len() - 1 *)
    let last := (length data - 1)%nat in
    let sh := addsub_lit (rnp_bits_sub p) (rnp_bits_width p) rem in
    do _ <- assert_ ((0 <=? sh) && (sh <? 32)) (Internal 1412);
    Ret (firstn last data ++ [Z.shiftr (nth last data 0) sh], r)
  else Ret (data, r).

(** `gen_biguint(bit_size)`, 64-bit-digit arm: a zeroed `Vec<u64>` of `div_ceil(bit_size, 64)`
    digits whose first `len` u32 halves (little-endian) are generated, then `biguint_from_vec`
    (= normalize). *)
Definition gen_biguint (p : rand_params) (bit_size : Z) (s : rng) : outcome (list Z * rng) :=
  let digits := bit_size / rnp_word_bits p in
  let rem := bit_size mod rnp_word_bits p in
  let len := digits + (if cmp_eval (rnp_len_rem_cmp p) rem 0 then 1 else 0) in
  let native_len := (let q := bit_size / rnp_native_bits p in
                     if 0 <? bit_size mod rnp_native_bits p then q + 1 else q) in
  do _ <- assert_ (len <=? native_len * 2) (Internal 1411);      (* debug_assert!(native_len * 2 >= len) *)
  do x <- gen_bits p (Z.to_nat len) rem s;
  let '(words, r) := x in
  let buf := u32_pairs (words ++ repeat 0 (Z.to_nat (native_len * 2 - len))) in
  Ret (strip buf, r).

(** `gen_bigint(bit_size)`: the zero re-draw loop.  Each iteration consumes at least the sign
    word, so [S (length s)] iterations always suffice ([gen_bigint]). *)
Fixpoint gen_bigint_loop (p : rand_params) (fuel : nat) (bit_size : Z) (s : rng) : outcome (bigint * rng) :=
  match fuel with
  | O => OutOfFuel
  | S f =>
      do x <- gen_biguint p bit_size s;
      let '(u, r) := x in
      if blit (rnp_zero_neg p) (uis_zero u) then
        do y <- gen_bool r;
        let '(b, r2) := y in
        if blit (negb (rnp_redraw_then p)) b then gen_bigint_loop p f bit_size r2
        else Ret (from_biguint (rnp_zero_sign p) u, r2)
      else
        do y <- gen_bool r;
        let '(b, r2) := y in
        Ret (from_biguint (if b then rnp_true_sign p else rnp_false_sign p) u, r2)
  end.
Definition gen_bigint (p : rand_params) (bit_size : Z) (s : rng) : outcome (bigint * rng) :=
  gen_bigint_loop p (S (length s)) bit_size s.

(** `BigUint::bits()` *)
Definition leading_zeros64 (d : Z) : Z := if d =? 0 then 64 else 63 - Z.log2 d.
Definition rand_bits (m : list Z) : Z :=
  match m with
  | [] => 0
  | _ => Z.of_nat (length m) * 64 - leading_zeros64 (last m 0)
  end.

(** `gen_biguint_below(bound)`: rejection loop; fuel = number of candidates inspected. *)
Fixpoint below_loop (p : rand_params) (fuel : nat) (bits : Z) (bound : list Z) (s : rng) : outcome (list Z * rng) :=
  match fuel with
  | O => OutOfFuel
  | S f =>
      do x <- gen_biguint p bits s;
      let '(n, r) := x in
      do c <- cmp_slice n bound;                                   (* n < *bound *)
      if cmp_ord (rnp_below_cmp p) c then Ret (n, r)
      else below_loop p f bits bound r
  end.
Definition gen_biguint_below (p : rand_params) (bound : list Z) (s : rng) : outcome (list Z * rng) :=
  do _ <- assert_ (blit (rnp_below_assert_neg p) (uis_zero bound)) EmptyRange;   (* assert!(!bound.is_zero()) *)
  below_loop p (S (length s)) (rand_bits bound) bound s.


(** `gen_biguint_range(lbound, ubound)` *)
Definition gen_biguint_range (rp : rand_params) (p : addsub_params) (lo hi : list Z) (s : rng) : outcome (list Z * rng) :=
  do c <- cmp_slice lo hi;
  do _ <- assert_ (cmp_ord (rnp_urange_cmp rp) c) EmptyRange;      (* assert!( *lbound < *ubound ) *)
  if blit (rnp_urange_zero_neg rp) (uis_zero lo) then gen_biguint_below rp hi s
  else
    do d <- usub p hi lo;                                          (* ubound - lbound *)
    do x <- gen_biguint_below rp d s;
    let '(n, r) := x in
    do v <- uadd p n lo;                                           (* lbound + n  (forwarded to n += lbound) *)
    Ret (v, r).

(** `gen_bigint_range(lbound, ubound)` *)
Definition gen_bigint_range (rp : rand_params) (sp : sign_params) (p : addsub_params) (lo hi : bigint) (s : rng) : outcome (bigint * rng) :=
  do c <- icmp sp lo hi;
  do _ <- assert_ (cmp_ord (rnp_irange_cmp rp) c) EmptyRange;
  if blit (rnp_irange_lo_neg rp) (iis_zero sp lo) then
    do x <- gen_biguint_below rp (mag hi) s;
    let '(n, r) := x in Ret (ifrom_u sp n, r)
  else if blit (rnp_irange_hi_neg rp) (iis_zero sp hi) then
    do x <- gen_biguint_below rp (mag lo) s;
    let '(n, r) := x in
    do v <- iadd p lo (ifrom_u sp n); Ret (v, r)
  else
    do delta <- isub p hi lo;
    do x <- gen_biguint_below rp (mag delta) s;
    let '(n, r) := x in
    do v <- iadd p lo (ifrom_u sp n); Ret (v, r).

(** `UniformBigUint` *)
Record uniform_u := mk_uu { uu_base : list Z; uu_len : list Z }.
Definition uu_new (rp : rand_params) (p : addsub_params) (lo hi : list Z) : outcome uniform_u :=
  do c <- cmp_slice lo hi;
  do _ <- assert_ (cmp_ord (rnp_uu_new_cmp rp) c) EmptyRange;      (* assert!(low < high) *)
  do len <- usub p hi lo;
  Ret (mk_uu lo len).
Definition uu_new_inclusive (rp : rand_params) (p : addsub_params) (lo hi : list Z) : outcome uniform_u :=
  do c <- cmp_slice lo hi;
  do _ <- assert_ (cmp_ord (rnp_uu_incl_cmp rp) c) EmptyRange;     (* assert!(low <= high) *)
  do h1 <- uadd p hi [1];                                          (* high + 1u32 *)
  uu_new rp p lo h1.
Definition uu_sample (rp : rand_params) (p : addsub_params) (u : uniform_u) (s : rng) : outcome (list Z * rng) :=
  do x <- gen_biguint_below rp (uu_len u) s;
  let '(n, r) := x in
  do v <- uadd p n (uu_base u);                                    (* &self.base + n *)
  Ret (v, r).
Definition uu_sample_single := gen_biguint_range.

(** `UniformBigInt` *)
Record uniform_i := mk_ui { ui_base : bigint; ui_len : list Z }.
Definition ui_new (rp : rand_params) (sp : sign_params) (p : addsub_params) (lo hi : bigint) : outcome uniform_i :=
  do c <- icmp sp lo hi;
  do _ <- assert_ (cmp_ord (rnp_ui_new_cmp rp) c) EmptyRange;
  do d <- isub p hi lo;
  Ret (mk_ui lo (snd (into_parts d))).
Definition ui_new_inclusive (rp : rand_params) (sp : sign_params) (p : addsub_params) (lo hi : bigint) : outcome uniform_i :=
  do c <- icmp sp lo hi;
  do _ <- assert_ (cmp_ord (rnp_ui_incl_cmp rp) c) EmptyRange;
  do h1 <- iadd p hi ione;                                         (* high + 1u32 *)
  ui_new rp sp p lo h1.
Definition ui_sample (rp : rand_params) (sp : sign_params) (p : addsub_params) (u : uniform_i) (s : rng) : outcome (bigint * rng) :=
  do x <- gen_biguint_below rp (ui_len u) s;
  let '(n, r) := x in
  do v <- iadd p (ui_base u) (ifrom_u sp n);
  Ret (v, r).
Definition ui_sample_single := gen_bigint_range.

(** `RandomBits` *)
Definition random_bits_u (p : rand_params) (bits : Z) (s : rng) := gen_biguint p bits s.
Definition random_bits_i (p : rand_params) (bits : Z) (s : rng) := gen_bigint p bits s.
