(* ExtraText.v — text-producing public items the API audit found without a model function:
   `fmt::Debug` for BigUint / BigInt and the `Display` / `Error::description` texts of the two
   error types.  Definitions only.

   src/biguint.rs, src/bigint.rs:
     impl fmt::Debug for BigUint { fn fmt(&self, f) -> fmt::Result { fmt::Display::fmt(self, f) } }   (BigInt alike)
   so `{:?}` with any flags / width / fill is `{}` with the same Formatter (the `#` flag has no
   effect because Display passes the empty prefix to pad_integral).
   src/lib.rs:
     ParseBigIntError::__description: Empty => "cannot parse integer from empty string", InvalidDigit => "invalid digit found in string"
     TryFromBigIntError::__description: "out of range conversion regarding big integer attempted"
     Display::fmt = self.__description().fmt(f)  (str's Display = Formatter::pad: with no width and no
     precision the text itself);  std::error::Error::description = __description. *)
From BigNum Require Import Base Radix RadixText RadixApi.
Open Scope Z_scope.

Definition u_fmt_debug (p : radix_params) (fl : fmt_flags) (u : list Z) : outcome (list Z) :=
  u_fmt p FDisplay fl u.
Definition i_fmt_debug (p : radix_params) (fl : fmt_flags) (x : bigint) : outcome (list Z) :=
  i_fmt p FDisplay fl x.

Definition parse_err_text (e : parse_err) : list Z :=
  match e with
  | PEmpty => [99; 97; 110; 110; 111; 116; 32; 112; 97; 114; 115; 101; 32; 105; 110; 116; 101; 103; 101; 114; 32; 102; 114; 111; 109; 32; 101; 109; 112; 116; 121; 32; 115; 116; 114; 105; 110; 103]
  | PInvalid => [105; 110; 118; 97; 108; 105; 100; 32; 100; 105; 103; 105; 116; 32; 102; 111; 117; 110; 100; 32; 105; 110; 32; 115; 116; 114; 105; 110; 103]
  end.
Definition try_from_err_text : list Z :=
  [111; 117; 116; 32; 111; 102; 32; 114; 97; 110; 103; 101; 32; 99; 111; 110; 118; 101; 114; 115; 105; 111; 110; 32; 114; 101; 103; 97; 114; 100; 105; 110; 103; 32; 98; 105; 103; 32; 105; 110; 116; 101; 103; 101; 114; 32; 97; 116; 116; 101; 109; 112; 116; 101; 100].

(** `text.parse::<BigUint>().unwrap_err().to_string()` etc.: the message of the error the parser
    returns, `None` when the text parses. *)
Definition err_text_of {A} (r : parse_result A) : option (list Z) :=
  match r with POk _ => None | PErr e => Some (parse_err_text e) end.
Definition u_from_str_radix_err (p : radix_params) (s : list Z) (r : Z) : outcome (option (list Z)) :=
  do x <- u_from_str_radix p s r; Ret (err_text_of x).
Definition i_from_str_radix_err (p : radix_params) (s : list Z) (r : Z) : outcome (option (list Z)) :=
  do x <- i_from_str_radix p s r; Ret (err_text_of x).
