(* ExtraHist.v — C04: ways of obtaining / mutating a value that the history machine of Hist.v does
   not have (found by the API audit, docs/API_COVERAGE.md):
     constructors  from_str_radix / parse_bytes (text), From<primitive>, arbitrary::Arbitrary
     operations    BigInt `op= primitive scalar` for + - * / %
     observations  `!=` (PartialEq::ne)
   Everything is defined by CALLING the owning area's model; only the `arbitrary` crate's byte
   decoding (dependency behaviour, arbitrary 1.4.2) is restated here.  Definitions only.
   Internal sites 1430-1433 (`.unwrap()` / `.expect()` of the harness on a rejected text). *)
From BigNum Require Import Base AddSub Sign Prim Radix RadixText RadixApi Hist.
Open Scope Z_scope.

(** * `!=` : the provided `PartialEq::ne` = `!self.eq(other)` *)
Definition une (a b : list Z) : outcome bool := do e <- ueq a b; Ret (negb e).
Definition ine (x y : bigint) : outcome bool := do e <- ieq x y; Ret (negb e).

(** * arbitrary 1.4.2 (modelled, not verified dependency behaviour)
    Unstructured::fill_buffer: copy min(len, remaining) bytes, zero-fill the rest, advance;
    integers: `from_le_bytes` of such a buffer; bool: `u8 & 1 == 1`;
    Vec<T>::arbitrary = arbitrary_iter().collect(): `while bool::arbitrary(u).unwrap_or(false) { T::arbitrary(u) }`
    (Vec<T>::arbitrary_take_rest runs the same loop on the owned Unstructured). *)
Fixpoint take_le (n : nat) (bs : list Z) : Z * list Z :=
  match n with
  | O => (0, bs)
  | S k => match bs with
           | [] => (0, [])
           | b :: r => let '(v, r') := take_le k r in (b + 256 * v, r')
           end
  end.
Definition arb_bool (bs : list Z) : bool * list Z :=
  match bs with [] => (false, []) | b :: r => (Z.odd b, r) end.
(** fuel: one more than the number of bytes (every iteration that continues consumes >= 1 byte) *)
Fixpoint arb_vec_u64 (fuel : nat) (bs : list Z) : list Z * list Z :=
  match fuel with
  | O => ([], bs)
  | S f => let '(go, r) := arb_bool bs in
           if go then
             let '(d, r1) := take_le 8 r in
             let '(v, r2) := arb_vec_u64 f r1 in (d :: v, r2)
           else ([], r)
  end.

(** src/biguint/arbitrary.rs: `Ok(biguint_from_vec(Vec::<BigDigit>::arbitrary(u)?))` *)
Definition arb_biguint (bs : list Z) : list Z * list Z :=
  let '(v, r) := arb_vec_u64 (S (length bs)) bs in (biguint_from_vec v, r).
(** src/bigint/arbitrary.rs: `let positive = bool::arbitrary(u)?; let sign = if positive {Plus} else {Minus};
    Ok(Self::from_biguint(sign, BigUint::arbitrary(u)?))` *)
Definition arb_bigint (bs : list Z) : bigint * list Z :=
  let '(pos, r) := arb_bool bs in
  let '(m, r') := arb_biguint r in
  (from_biguint (if pos then Plus else Minus) m, r').
(** size_hint: Vec = (0, None); BigInt = and((1, Some 1), (0, None)) = (1, None); -1 stands for None *)
Definition arb_size_hint_u : Z * Z := (0, -1).
Definition arb_size_hint_i : Z * Z := (1, -1).

(** * Extended constructors *)
Inductive xctor :=
| XC (c : ctor)                         (* every constructor of Hist.v *)
| XUStr (t : list Z) (r : Z)            (* BigUint::from_str_radix(t, r).unwrap() *)
| XIStr (t : list Z) (r : Z)            (* BigInt::from_str_radix(t, r).unwrap() *)
| XUParse (b : list Z) (r : Z)          (* BigUint::parse_bytes(b, r).unwrap() *)
| XIParse (b : list Z) (r : Z)
| XUPrim (t : ptype) (v : Z)            (* BigUint::from(v : T), T unsigned *)
| XIPrim (t : ptype) (v : Z)            (* BigInt::from(v : T) *)
| XUArb (b : list Z)                    (* <BigUint as arbitrary::Arbitrary>::arbitrary(&mut Unstructured::new(b)).unwrap() *)
| XIArb (b : list Z)
| XUArbRest (b : list Z)                (* …::arbitrary_take_rest(Unstructured::new(b)).unwrap() *)
| XIArbRest (b : list Z).

Definition of_parse {A} (r : parse_result A) (site : Z) : outcome A :=
  match r with POk a => Ret a | PErr _ => Panic (Internal site) end.

Definition xconstruct (P : hist_params) (c : xctor) : outcome obj :=
  match c with
  | XC c => construct P c
  | XUStr t r => do x <- u_from_str_radix (hp_radix P) t r; do d <- of_parse x 1430; Ret (OU d)
  | XIStr t r => do x <- i_from_str_radix (hp_radix P) t r; do d <- of_parse x 1431; Ret (OI d)
  | XUParse b r => do x <- u_parse_bytes (hp_radix P) b r; do d <- of_opt x 1432; Ret (OU d)
  | XIParse b r => do x <- i_parse_bytes (hp_radix P) b r; do d <- of_opt x 1433; Ret (OI d)
  | XUPrim t v => do d <- ufrom t v; Ret (OU d)
  | XIPrim t v => do x <- ifrom t v; Ret (OI x)
  | XUArb b | XUArbRest b => Ret (OU (fst (arb_biguint b)))
  | XIArb b | XIArbRest b => Ret (OI (fst (arb_bigint b)))
  end.

(** * Extended operations: BigInt `op= scalar`.
    `x += s` etc. with `s` of any of the twelve primitive types is modelled by the big-big
    operation on the canonical BigInt of `s` (that the scalar form agrees with it is C10's
    statement; that `BigInt::from(s)` is `ienc s` is C08's). *)
Inductive sop := SAdd | SSub | SMul | SDiv | SRem.
Inductive xop :=
| XO (o : op)
| XIScalar (k : sop) (t : ptype) (s : Z).

Definition sop_op (k : sop) (y : obj) : op :=
  match k with SAdd => OAdd y | SSub => OSub y | SMul => OMul y | SDiv => ODiv y | SRem => ORem y end.
Definition xop_base (o : xop) : op :=
  match o with
  | XO o => o
  | XIScalar k _ s => sop_op k (OI (ienc s))
  end.

Definition xstart (P : hist_params) (c : xctor) : outcome obj := do s <- xconstruct P c; guard s.
Definition xhistory_trace (P : hist_params) (c : xctor) (ops : list xop) : list (outcome obj) :=
  match xstart P c with
  | Ret s => Ret s :: trace P s (map xop_base ops)
  | e => [e]
  end.
Definition xhistory (P : hist_params) (c : xctor) (ops : list xop) : outcome obj :=
  do s <- xstart P c; run P s (map xop_base ops).
