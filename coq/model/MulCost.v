(* MulCost.v — the multiplication model of Mul.v instrumented with the work counter of C20:
   `crate::verif_probe::add_work(b.len())` in `mac_digit`, placed after the `c == 0` return.
   Every function returns (value, work).  The non-recursive phases (additions, sub_sign,
   Toom-3 evaluation / interpolation / recomposition, scalar_mul) do not call mac_digit and
   are shared with Mul.v.  Definitions only; erasure (same values as Mul.v) and the bank are in
   proofs/MulCostProofs.v. *)
From BigNum Require Import Base AddSub ShiftCore Mul.
Open Scope Z_scope.

Definition mac_digit_c (p : mul_params) (acc b : list Z) (c : Z) : outcome (list Z * Z) :=
  if c =? 0 then Ret (acc, 0)
  else do r <- mac_digit p acc b c; Ret (r, lenZ b).

Fixpoint long_mul_c (p : mul_params) (acc x y : list Z) : outcome (list Z * Z) :=
  match x with
  | [] => Ret (acc, 0)
  | xi :: x' =>
      do r1 <- mac_digit_c p acc y xi;
      let '(a1, w1) := r1 in
      match x' with
      | [] => Ret (a1, w1)
      | _ => match a1 with
             | [] => Panic (Internal 207)
             | d :: rest => do r <- long_mul_c p rest x' y; Ret (d :: fst r, w1 + snd r)
             end
      end
  end.

Definition mrec_c := list Z -> list Z -> list Z -> outcome (list Z * Z).

Definition on_slice_c (k : nat) (s : Z) (acc : list Z) (f : list Z -> outcome (list Z * Z))
  : outcome (list Z * Z) :=
  do _ <- assert_ (k <=? length acc)%nat (Internal s);
  do t <- f (skipn k acc);
  Ret (firstn k acc ++ fst t, snd t).

Definition half_kara_c (rec : mrec_c) (p : mul_params) (acc x y : list Z) : outcome (list Z * Z) :=
  let m2 := half_split p y in
  let low2 := firstn m2 y in
  let high2 := skipn m2 y in
  do r1 <- rec acc x low2;
  do r2 <- on_slice_c m2 208 (fst r1) (fun s => rec s x high2);
  Ret (fst r2, snd r1 + snd r2).

Definition karatsuba_c (rec : mrec_c) (p : mul_params) (acc x y : list Z) : outcome (list Z * Z) :=
  let ap := mp_as p in
  let b := kara_split p x in
  let x0 := firstn b x in let x1 := skipn b x in
  do _ <- assert_ (b <=? length y)%nat (Internal 209);
  let y0 := firstn b y in let y1 := skipn b y in
  let len := kara_len p x1 y1 in
  do p2 <- rec (zeros len) x1 y1;
  do acc2 <- kara_add_p2 ap b acc (fst p2);
  do p0 <- rec (zeros len) x0 y0;
  do acc4 <- kara_add_p0 ap b acc2 (fst p0);
  do j0 <- sub_sign ap x1 x0;
  do j1 <- sub_sign ap y1 y0;
  let w := snd p2 + snd p0 in
  match sign_mul (fst j0) (fst j1) with
  | Plus =>
      do p1 <- rec (zeros len) (snd j0) (snd j1);
      do r <- on_slice b 212 acc4 (fun s => sub2 ap s (strip (fst p1)));
      Ret (r, w + snd p1)
  | Minus =>
      do r <- on_slice_c b 212 acc4 (fun s => rec s (snd j0) (snd j1));
      Ret (fst r, w + snd r)
  | NoSign => Ret (acc4, w)
  end.

Definition mul3_with_c (m3 : mrec_c) (p : mul_params) (x y : list Z) : outcome (list Z * Z) :=
  let len := Z.to_nat (lenZ x + lenZ y + mp_prod_extra p) in
  do r <- m3 (zeros len) x y;
  Ret (strip (fst r), snd r).

Definition umul_with_c (m3 : mrec_c) (p : mul_params) (a b : list Z) : outcome (list Z * Z) :=
  match a, b with
  | [], _ | _, [] => Ret ([], 0)
  | _, [d] => do r <- scalar_mul a d; Ret (r, 0)
  | [d], _ => do r <- scalar_mul b d; Ret (r, 0)
  | _, _ => mul3_with_c m3 p a b
  end.

Definition imul_with_c (m3 : mrec_c) (p : mul_params) (x y : bigint) : outcome (bigint * Z) :=
  do m <- umul_with_c m3 p (mag x) (mag y);
  Ret (from_biguint (sign_mul (sg x) (sg y)) (fst m), snd m).

(** the five products of Toom-3, accumulating the work *)
Fixpoint mapM_c {A C} (f : A -> outcome (C * Z)) (l : list A) : outcome (list C * Z) :=
  match l with
  | [] => Ret ([], 0)
  | a :: r => do c <- f a; do cs <- mapM_c f r; Ret (fst c :: fst cs, snd c + snd cs)
  end.

Definition toom3_c (rec : mrec_c) (p : mul_params) (acc x y : list Z) : outcome (list Z * Z) :=
  do pts <- toom3_eval p x y;
  do rs <- mapM_c (fun xy => imul_with_c rec p (fst xy) (snd xy)) pts;
  do r <- toom3_finish p acc y (fst rs);
  Ret (r, snd rs).

Definition mac3_body_c (rec : mrec_c) (p : mul_params) (acc b c : list Z) : outcome (list Z * Z) :=
  let '(x, y) := if cmp_eval (mp_swap_cmp p) (lenZ b) (lenZ c) then (b, c) else (c, b) in
  if cmp_eval (mp_long_cmp p) (lenZ x) (mp_long_max p) then long_mul_c p acc x y
  else if cmp_eval (mp_half_cmp p) (lenZ x * mp_half_mul p) (lenZ y) then half_kara_c rec p acc x y
  else if cmp_eval (mp_kara_cmp p) (lenZ x) (mp_kara_max p) then karatsuba_c rec p acc x y
  else toom3_c rec p acc x y.

Definition mac3_strip_c (body : list Z -> list Z -> list Z -> outcome (list Z * Z))
           (acc b c : list Z) : outcome (list Z * Z) :=
  match low_zeros b with
  | None => Ret (acc, 0)
  | Some nb =>
      on_slice_c nb 205 acc (fun acc1 =>
        match low_zeros c with
        | None => Ret (acc1, 0)
        | Some nc => on_slice_c nc 206 acc1 (fun acc2 => body acc2 (skipn nb b) (skipn nc c))
        end)
  end.

Fixpoint mac3_c (fuel : nat) (p : mul_params) (acc b c : list Z) : outcome (list Z * Z) :=
  match fuel with
  | O => OutOfFuel
  | S f => mac3_strip_c (mac3_body_c (mac3_c f p) p) acc b c
  end.

(** `&a * &b` with its work *)
Definition umul_c (p : mul_params) (a b : list Z) : outcome (list Z * Z) :=
  umul_with_c (mac3_c (fuel3 a b) p) p a b.

(** the work counter alone *)
Definition cost (p : mul_params) (a b : list Z) : outcome Z :=
  do r <- umul_c p a b; Ret (snd r).

(** * The fixed operand bank of C20: dense odd 32-bit words from an LCG, two per digit.
    x_{k+1} = (x_k * 1664525 + 1013904223) mod 2^32 ; word = x | 1 ; digit = lo + 2^32 * hi *)
Definition lcg_next (x : Z) : Z := (x * 1664525 + 1013904223) mod 4294967296.
Fixpoint lcg_digits (n : nat) (x : Z) : list Z :=
  match n with
  | O => []
  | S n' =>
      let x1 := lcg_next x in
      let x2 := lcg_next x1 in
      (Z.lor x1 1 + 4294967296 * Z.lor x2 1) :: lcg_digits n' x2
  end.
Definition bank_a (n : nat) : list Z := lcg_digits n 12345.
Definition bank_b (n : nat) : list Z := lcg_digits n 67890.
