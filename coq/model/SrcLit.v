(* SrcLit.v — the small vocabulary in which the source extractors (tools/extractors/{iter,serde,
   bytes,rand,sign}.py) describe boolean fragments of the Rust source, and its evaluation.
   Definitions only. *)
From BigNum Require Import Base.
Open Scope Z_scope.

(** a boolean operand as it is written in the source: [neg] = it carries a `!` *)
Definition blit (neg v : bool) : bool := if neg then negb v else v.

(** `[!]a && [!]b` ([bt_and] = true) or `[!]a || [!]b` *)
Record btest := { bt_neg1 : bool; bt_and : bool; bt_neg2 : bool }.
Definition bt_eval (t : btest) (a b : bool) : bool :=
  if bt_and t then blit (bt_neg1 t) a && blit (bt_neg2 t) b
  else blit (bt_neg1 t) a || blit (bt_neg2 t) b.
Definition btest_eqb (s t : btest) : bool :=
  Bool.eqb (bt_neg1 s) (bt_neg1 t) && Bool.eqb (bt_and s) (bt_and t) && Bool.eqb (bt_neg2 s) (bt_neg2 t).

(** `a - b` ([sub] = true) or `a + b` as written *)
Definition addsub_lit (sub : bool) (a b : Z) : Z := if sub then a - b else a + b.

(** a `Sign` literal as written (or `SUnknown` when the extractor does not recognise the token) *)
Inductive sign_lit := SLit (s : sign) | SUnknown.
Definition sign_lit_eqb (a : sign_lit) (s : sign) : bool :=
  match a with SLit t => sign_eqb t s | SUnknown => false end.
Definition sign_of_lit (a : sign_lit) (dflt : sign) : sign :=
  match a with SLit t => t | SUnknown => dflt end.

(** `s == Sign::T` ([eq] = true) or `s != Sign::T` *)
Definition sign_test (eq : bool) (s t : sign) : bool :=
  if eq then sign_eqb s t else negb (sign_eqb s t).

(** a comparison operator applied to the `Ordering` of its two operands (`a < b` on big numbers
    is `a.cmp(&b) == Less`, ...) *)
Definition is_lt (c : comparison) : bool := match c with Lt => true | _ => false end.
Definition is_le (c : comparison) : bool := match c with Gt => false | _ => true end.
Definition is_eq (c : comparison) : bool := match c with Eq => true | _ => false end.
Definition cmp_ord (op : cmpop) (c : comparison) : bool :=
  match op with
  | Clt => is_lt c | Cle => is_le c | Ceq => is_eq c
  | Cne => negb (is_eq c) | Cge => negb (is_lt c) | Cgt => negb (is_le c)
  end.

(** `Ordering` literals *)
Definition comparison_eqb (a b : comparison) : bool :=
  match a, b with Eq, Eq | Lt, Lt | Gt, Gt => true | _, _ => false end.
