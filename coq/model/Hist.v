(* Hist.v — a state machine over ONE BigUint / BigInt object (C04).
   An object is created by any public constructor from arbitrary input (redundant high zero
   words, padding bytes, sign/magnitude mismatch) and is then mutated IN PLACE by a finite
   history of public operations.  Every operation is defined by CALLING the model of the area
   that owns it (AddSub, Div, Bits, Bytes, Serde, Sign) with the parameters extracted from the
   source; nothing is re-modelled here.  What is modelled here, from src/biguint.rs and
   (since the merge of mul / pgr / radix also Mul, Pow, Gcd, Roots, RadixApi)
   src/bigint.rs (top of file): `biguint_from_vec`, `Clone::clone_from`, `PartialEq::eq`,
   `Ord::cmp` / `max` / `min` / sort, `Hash::hash` (the word stream fed to the hasher).
   Definitions only.  Internal sites 1400, 1410-1429. *)
From BigNum Require Import Base AddSub ShiftCore Div Bits BitDigits Iter Bytes Serde Sign
  Mul PgrLoop Pow Gcd Roots Radix RadixText RadixKernels RadixApi.
Open Scope Z_scope.

(** Parameters of the owning areas (all source-extracted, see gen/Extracted.v). *)
Record hist_params := mkHP {
  hp_as : addsub_params;
  hp_div : div_params;
  hp_bits : bits_params;
  hp_mul : mul_params;
  hp_pow : pow_params;
  hp_gcd : gcd_params;
  hp_roots : roots_params;
  hp_radix : radix_params;
  hp_iter : iter_params;
  hp_serde : serde_params;
  hp_bytes : bytes_params;
  hp_sign : sign_params
}.
(** the initial guess of the Newton iterations: the no_std one, 2^max_bits (the std build starts from
    an f64 estimate instead; the result does not depend on the guess: C11_guess_independent) *)
Definition hist_guess (x : list Z) (n max_bits : Z) : list Z := guess_nostd x n (Z.max 0 max_bits).
(** what the pow / gcd / roots models call for their big products and quotients *)
Definition hp_bmul (P : hist_params) : list Z -> list Z -> outcome (list Z) := umul (hp_mul P).
Definition hp_bdivrem (P : hist_params) : list Z -> list Z -> outcome (list Z * list Z) := udivrem (hp_div P).

(** * Objects *)
Inductive obj := OU (d : list Z) | OI (x : bigint).
Inductive kind := KU | KI.
Definition okind (s : obj) : kind := match s with OU _ => KU | OI _ => KI end.
Definition kind_eqb (a b : kind) : bool :=
  match a, b with KU, KU | KI, KI => true | _, _ => false end.
Definition odigits (s : obj) : list Z := match s with OU d => d | OI x => mag x end.
Definition osign (s : obj) : sign := match s with OU d => (match d with [] => NoSign | _ => Plus end) | OI x => sg x end.

(** `biguint_from_vec(digits)` = `BigUint { data: digits }.normalized()`: what serde,
    quickcheck/arbitrary and the crate's own internals construct values with. *)
Definition biguint_from_vec (d : list Z) : list Z := strip d.

(** * Constructors (inputs are arbitrary: any trailing zero words / padding / sign) *)
Inductive ctor :=
| CUVec (d : list Z)                       (* biguint_from_vec (u64 digits): arbitrary/quickcheck/internal *)
| CUNew (w : list Z)                       (* BigUint::new(Vec<u32>) *)
| CUSlice (w : list Z)                     (* BigUint::from_slice(&[u32]) *)
| CUBytesLe (b : list Z)                   (* BigUint::from_bytes_le *)
| CUBytesBe (b : list Z)                   (* BigUint::from_bytes_be *)
| CUSerde (w : list Z)                     (* Deserialize: sequence of u32 tokens *)
| CIParts (s : sign) (d : list Z)          (* BigInt::from_biguint(s, biguint_from_vec d): arbitrary/quickcheck *)
| CINew (s : sign) (w : list Z)            (* BigInt::new(s, Vec<u32>) *)
| CISlice (s : sign) (w : list Z)          (* BigInt::from_slice *)
| CIBytesLe (s : sign) (b : list Z)        (* BigInt::from_bytes_le *)
| CIBytesBe (s : sign) (b : list Z)        (* BigInt::from_bytes_be *)
| CISignedLe (b : list Z)                  (* BigInt::from_signed_bytes_le *)
| CISignedBe (b : list Z)                  (* BigInt::from_signed_bytes_be *)
| CISerde (s : sign) (w : list Z)          (* Deserialize: (sign token, sequence of u32 tokens) *)
| CIFromU (d : list Z)                     (* BigInt::from(biguint_from_vec d) *)
| CURadixLe (b : list Z) (r : Z)           (* BigUint::from_radix_le(digits, radix).unwrap() *)
| CURadixBe (b : list Z) (r : Z)
| CIRadixLe (s : sign) (b : list Z) (r : Z)  (* BigInt::from_radix_le(sign, digits, radix).unwrap() *)
| CIRadixBe (s : sign) (b : list Z) (r : Z).

Definition of_opt {A} (o : option A) (site : Z) : outcome A :=
  match o with Some a => Ret a | None => Panic (Internal site) end.

Definition construct (P : hist_params) (c : ctor) : outcome obj :=
  match c with
  | CUVec d => Ret (OU (biguint_from_vec d))
  | CUNew w => Ret (OU (unew w))
  | CUSlice w => Ret (OU (ufrom_slice w))
  | CUBytesLe b => do r <- ufrom_bytes_le (hp_bytes P) b; Ret (OU r)
  | CUBytesBe b => do r <- ufrom_bytes_be (hp_bytes P) b; Ret (OU r)
  | CUSerde w => do r <- of_opt (de_biguint_tokens (hp_serde P) None w) 1410; Ret (OU r)
  | CIParts s d => Ret (OI (from_biguint s (biguint_from_vec d)))
  | CINew s w => Ret (OI (inew s w))
  | CISlice s w => Ret (OI (ifrom_slice s w))
  | CIBytesLe s b => do r <- ifrom_bytes_le (hp_bytes P) s b; Ret (OI r)
  | CIBytesBe s b => do r <- ifrom_bytes_be (hp_bytes P) s b; Ret (OI r)
  | CISignedLe b => do r <- from_signed_bytes_le (hp_bytes P) b; Ret (OI r)
  | CISignedBe b => do r <- from_signed_bytes_be (hp_bytes P) b; Ret (OI r)
  | CISerde s w => do r <- of_opt (de_bigint (hp_serde P) (sign_z s) None w) 1411; Ret (OI r)
  | CIFromU d => Ret (OI (ifrom_u (hp_sign P) (biguint_from_vec d)))
  | CURadixLe b r => do o <- u_from_radix_le (hp_radix P) b r; do d <- of_opt o 1412; Ret (OU d)
  | CURadixBe b r => do o <- u_from_radix_be (hp_radix P) b r; do d <- of_opt o 1412; Ret (OU d)
  | CIRadixLe s b r => do o <- i_from_radix_le (hp_radix P) s b r; do x <- of_opt o 1413; Ret (OI x)
  | CIRadixBe s b r => do o <- i_from_radix_be (hp_radix P) s b r; do x <- of_opt o 1413; Ret (OI x)
  end.

(** * Operations on the object *)
Inductive swidth := S32 | S64 | S128.        (* u32 / u64 / u128 right operand *)

(** A big right operand is given as raw data and built the way the harness builds it:
    `biguint_from_vec` resp. `BigInt::from_biguint(sign, biguint_from_vec(..))`. *)
Inductive op :=
| OAdd (y : obj) | OSub (y : obj) | ODiv (y : obj) | ORem (y : obj)
| OAnd (y : obj) | OOr (y : obj) | OXor (y : obj)
| OShl (n : Z) | OShr (n : Z)
| OSetBit (i : Z) (v : bool)
| OSetZero | OSetOne
| OCloneFrom (y : obj)
| OAssign (s : sign) (w : list Z)            (* assign_from_slice; the sign is ignored for BigUint *)
| OAddS (t : swidth) (s : Z) | OSubS (t : swidth) (s : Z)   (* BigUint op= scalar *)
| ODivS (t : swidth) (s : Z) | ORemS (t : swidth) (s : Z)
| ONeg | ONot | OAbs | OSignum                (* BigInt: x = -x, x = !x, x = x.abs(), x = x.signum() *)
| ODivFloor (y : obj) | OModFloor (y : obj)   (* x = x.div_floor(&y) ... *)
| ODivEuclid (y : obj) | ORemEuclid (y : obj)
| ODivCeil (y : obj)
| OMul (y : obj)                              (* `*=` (impl_mul_assign!) *)
| OMulS (t : swidth) (s : Z)                  (* BigUint *= u32 / u64 / u128 *)
| OPow (e : Z)                                (* x = x.pow(e : u32) *)
| OSqrt | OCbrt | ONthRoot (n : Z)            (* x = x.sqrt() / cbrt() / nth_root(n : u32) *)
| OGcd (y : obj) | OLcm (y : obj).            (* x = x.gcd(&y) / x.lcm(&y) *)

Definition prep_u (d : list Z) : list Z := biguint_from_vec d.
Definition prep_i (x : bigint) : bigint := from_biguint (sg x) (biguint_from_vec (mag x)).

(** an operation that does not exist for this kind of object (ill-typed script) *)
Definition ill {A} : outcome A := Panic (Internal 1400).

Definition ustep (P : hist_params) (a : list Z) (o : op) : outcome (list Z) :=
  match o with
  | OAdd (OU y) => uadd (hp_as P) a (prep_u y)                  (* AddAssign<&BigUint> *)
  | OSub (OU y) => usub (hp_as P) a (prep_u y)                  (* SubAssign<&BigUint> *)
  | ODiv (OU y) => udiv (hp_div P) a (prep_u y)                 (* `*self = &*self / other` *)
  | ORem (OU y) => urem (hp_div P) a (prep_u y)                 (* `*self = &*self % other` *)
  | OAnd (OU y) => Ret (uand_assign a (prep_u y))
  | OOr (OU y) => Ret (uor_assign (hp_bits P) a (prep_u y))
  | OXor (OU y) => Ret (uxor_assign (hp_bits P) a (prep_u y))
  | OShl n => biguint_shl a n                                   (* `let n = mem::replace(self, ZERO); *self = n << rhs` *)
  | OShr n => biguint_shr a n
  | OSetBit i v => uset_bit (hp_bits P) a i v
  | OSetZero => Ret (uset_zero a)
  | OSetOne => Ret (uset_one a)
  | OCloneFrom (OU y) => Ret (prep_u y)                         (* `self.data.clone_from(&other.data)` *)
  | OAssign _ w => Ret (uassign_from_slice a w)
  | OAddS S128 s => uadd_u128 (hp_as P) a s
  | OAddS _ s => uadd_digit (hp_as P) a s
  | OSubS S128 s => usub_u128 (hp_as P) a s
  | OSubS _ s => usub_digit (hp_as P) a s
  | ODivS S32 s => udiv_u32 (hp_div P) a s
  | ODivS S64 s => udiv_u64 (hp_div P) a s
  | ODivS S128 s => udiv_u128 (hp_div P) a s
  | ORemS S32 s => urem_u32 (hp_div P) a s
  | ORemS S64 s => urem_u64 (hp_div P) a s
  | ORemS S128 s => urem_u128 (hp_div P) a s
  | ODivFloor (OU y) => udiv_floor (hp_div P) a (prep_u y)
  | OModFloor (OU y) => umod_floor (hp_div P) a (prep_u y)
  | ODivEuclid (OU y) => udiv_euclid (hp_div P) a (prep_u y)
  | ORemEuclid (OU y) => urem_euclid (hp_div P) a (prep_u y)
  | ODivCeil (OU y) => udiv_ceil (hp_div P) a (prep_u y)
  | OMul (OU y) => umul_assign (hp_mul P) a (prep_u y)
  | OMulS S128 s => umul_u128 (hp_mul P) a s
  | OMulS _ s => umul_digit a s
  | OPow e => upow_prim (hp_bmul P) (hp_pow P) a e
  | OSqrt => usqrt (hp_bdivrem P) (hp_as P) (hp_roots P) hist_guess a
  | OCbrt => ucbrt (hp_bmul P) (hp_bdivrem P) (hp_as P) (hp_roots P) hist_guess a
  | ONthRoot n => unth_root (hp_bmul P) (hp_bdivrem P) (hp_as P) (hp_pow P) (hp_roots P) hist_guess a n
  | OGcd (OU y) => ugcd (hp_as P) (hp_gcd P) a (prep_u y)
  | OLcm (OU y) => ulcm (hp_bmul P) (hp_bdivrem P) (hp_as P) (hp_gcd P) a (prep_u y)
  | _ => ill
  end.

Definition istep (P : hist_params) (x : bigint) (o : op) : outcome bigint :=
  match o with
  | OAdd (OI y) => iadd (hp_as P) x (prep_i y)                  (* `let n = mem::replace(self, ZERO); *self = n + other` *)
  | OSub (OI y) => isub (hp_as P) x (prep_i y)
  | ODiv (OI y) => idiv (hp_div P) x (prep_i y)
  | ORem (OI y) => irem (hp_div P) x (prep_i y)
  | OAnd (OI y) => iand_assign x (prep_i y)
  | OOr (OI y) => ior_assign (hp_bits P) x (prep_i y)
  | OXor (OI y) => ixor_assign (hp_bits P) x (prep_i y)
  | OShl n => ishl_assign x n
  | OShr n => ishr_assign (hp_bits P) (hp_as P) x n
  | OSetBit i v => iset_bit (hp_bits P) x i v
  | OSetZero => Ret (Sign.iset_zero x)
  | OSetOne => Ret (Sign.iset_one x)
  | OCloneFrom (OI y) => Ret (prep_i y)                         (* `self.sign = other.sign; self.data.clone_from(..)` *)
  | OAssign s w => Ret (iassign_from_slice x s w)
  | ONeg => Ret (ineg x)
  | ONot => inot (hp_as P) x
  | OAbs => Ret (iabs (hp_sign P) x)
  | OSignum => Ret (isignum (hp_sign P) x)
  | ODivFloor (OI y) => idiv_floor (hp_div P) x (prep_i y)
  | OModFloor (OI y) => imod_floor (hp_div P) x (prep_i y)
  | ODivEuclid (OI y) => idiv_euclid (hp_div P) x (prep_i y)
  | ORemEuclid (OI y) => irem_euclid (hp_div P) x (prep_i y)
  | ODivCeil (OI y) => idiv_ceil (hp_div P) x (prep_i y)
  | OMul (OI y) => imul_assign (hp_mul P) x (prep_i y)
  | OPow e => ipow_prim (hp_bmul P) (hp_pow P) x e
  | OSqrt => isqrt (hp_bdivrem P) (hp_as P) (hp_roots P) hist_guess x
  | OCbrt => icbrt (hp_bmul P) (hp_bdivrem P) (hp_as P) (hp_roots P) hist_guess x
  | ONthRoot n => inth_root (hp_bmul P) (hp_bdivrem P) (hp_as P) (hp_pow P) (hp_roots P) hist_guess x n
  | OGcd (OI y) => igcd (hp_as P) (hp_gcd P) x (prep_i y)
  | OLcm (OI y) => ilcm (hp_bmul P) (hp_bdivrem P) (hp_as P) (hp_gcd P) x (prep_i y)
  | _ => ill
  end.

Definition step (P : hist_params) (s : obj) (o : op) : outcome obj :=
  match s with
  | OU a => do r <- ustep P a o; Ret (OU r)
  | OI x => do r <- istep P x o; Ret (OI r)
  end.

(** A 64-bit address space holds no vector of 2^58 or more u64 digits: the allocation would have
    failed (abort, out of scope) long before.  The history stops there. *)
Definition fits (s : obj) : bool := zlen (odigits s) <? 2 ^ 58.
Definition guard (s : obj) : outcome obj := if fits s then Ret s else Panic MemOverflow.

Definition start (P : hist_params) (c : ctor) : outcome obj := do s <- construct P c; guard s.

(** A panic stops the history (the Rust object is unwound / left unspecified). *)
Fixpoint run (P : hist_params) (s : obj) (ops : list op) : outcome obj :=
  match ops with
  | [] => Ret s
  | o :: r => do s1 <- step P s o; do s2 <- guard s1; run P s2 r
  end.

Definition history (P : hist_params) (c : ctor) (ops : list op) : outcome obj :=
  do s <- start P c; run P s ops.

(** The same with every intermediate object observed (what the harness prints). *)
Fixpoint trace (P : hist_params) (s : obj) (ops : list op) : list (outcome obj) :=
  match ops with
  | [] => []
  | o :: r => match (do s1 <- step P s o; guard s1) with
              | Ret s2 => Ret s2 :: trace P s2 r
              | e => [e]
              end
  end.
Definition history_trace (P : hist_params) (c : ctor) (ops : list op) : list (outcome obj) :=
  match start P c with
  | Ret s => Ret s :: trace P s ops
  | e => [e]
  end.

(** * Eq *)
Fixpoint list_eqb (a b : list Z) : bool :=
  match a, b with
  | [], [] => true
  | x :: a', y :: b' => (x =? y) && list_eqb a' b'
  | _, _ => false
  end.

(** `PartialEq for BigUint`: two debug assertions, then `self.data == other.data`. *)
Definition ueq (a b : list Z) : outcome bool :=
  do _ <- assert_ (last_nonzero a) (Internal 1420);
  do _ <- assert_ (last_nonzero b) (Internal 1421);
  Ret (list_eqb a b).

(** `PartialEq for BigInt`:
    `self.sign == other.sign && (self.sign == NoSign || self.data == other.data)`. *)
Definition ieq (x y : bigint) : outcome bool :=
  do _ <- assert_ (sign_consistent x) (Internal 1422);
  do _ <- assert_ (sign_consistent y) (Internal 1423);
  if sign_eqb (sg x) (sg y) then
    if sign_eqb (sg x) NoSign then Ret true else ueq (mag x) (mag y)
  else Ret false.

Definition oeq (a b : obj) : outcome bool :=
  match a, b with
  | OU x, OU y => ueq x y
  | OI x, OI y => ieq x y
  | _, _ => ill
  end.

(** * Ord *)
Definition ocmp (sp : sign_params) (a b : obj) : outcome comparison :=
  match a, b with
  | OU x, OU y => ucmp x y
  | OI x, OI y => icmp sp x y
  | _, _ => ill
  end.

(** `Ord::max(self, other)`: `other` unless `self > other`; `Ord::min`: `self` unless `other < self`. *)
Definition omax (sp : sign_params) (a b : obj) : outcome obj :=
  do c <- ocmp sp a b; Ret (match c with Gt => a | _ => b end).
Definition omin (sp : sign_params) (a b : obj) : outcome obj :=
  do c <- ocmp sp a b; Ret (match c with Gt => b | _ => a end).

(** a comparison sort driven by `cmp` only (stable insertion sort; `slice::sort` is some
    comparison sort: its result is determined by `cmp` up to the order of equal elements,
    and equal elements are identical objects here) *)
Fixpoint oinsert (sp : sign_params) (x : obj) (l : list obj) : outcome (list obj) :=
  match l with
  | [] => Ret [x]
  | y :: r => do c <- ocmp sp x y;
              match c with
              | Gt => do r' <- oinsert sp x r; Ret (y :: r')
              | _ => Ret (x :: l)
              end
  end.
Fixpoint osort (sp : sign_params) (l : list obj) : outcome (list obj) :=
  match l with
  | [] => Ret []
  | x :: r => do r' <- osort sp r; oinsert sp x r'
  end.

(** * Hash: the stream of 64-bit words written to the `Hasher`.
    `Vec<u64>::hash` = `[u64]::hash`: the length prefix, then the elements;
    `#[derive(Hash)] enum Sign`: the discriminant (Minus = 0, NoSign = 1, Plus = 2);
    `BigInt::hash`: the sign, then the magnitude unless the sign is NoSign. *)
Definition uhash (d : list Z) : outcome (list Z) :=
  do _ <- assert_ (last_nonzero d) (Internal 1424);
  Ret (zlen d :: d).
Definition sign_disc (s : sign) : Z := match s with Minus => 0 | NoSign => 1 | Plus => 2 end.
Definition ihash (x : bigint) : outcome (list Z) :=
  do _ <- assert_ (sign_consistent x) (Internal 1425);
  if sign_eqb (sg x) NoSign then Ret [sign_disc (sg x)]
  else do h <- uhash (mag x); Ret (sign_disc (sg x) :: h).
Definition hash_stream (s : obj) : outcome (list Z) :=
  match s with OU d => uhash d | OI x => ihash x end.

(** * Exports as functions of the object: each is (sign word, payload). *)
Inductive export := EU32 | EU64 | EBytesLe | EBytesBe | ESignedLe | ESignedBe | EBits | ECountOnes | ETrailingZeros
                  | EText (radix : Z).           (* to_str_radix(radix): the bytes of the String *)

Definition export_of (P : hist_params) (e : export) (s : obj) : outcome (list Z) :=
  match s, e with
  | OU d, EText r => u_to_str_radix (hp_radix P) d r
  | OI x, EText r => i_to_str_radix (hp_radix P) x r
  | OU d, EU32 => uto_u32_digits (hp_iter P) d
  | OU d, EU64 => Ret (uto_u64_digits d)
  | OU d, EBytesLe => uto_bytes_le (hp_bytes P) d
  | OU d, EBytesBe => uto_bytes_be (hp_bytes P) d
  | OU d, EBits => Ret [ubits d]
  | OU d, ECountOnes => Ret [ucount_ones d]
  | OU d, ETrailingZeros => Ret (match utrailing_zeros d with Some k => [k] | None => [] end)
  | OI x, EU32 => do r <- ito_u32_digits (hp_iter P) x; Ret (sign_z (fst r) :: snd r)
  | OI x, EU64 => let r := ito_u64_digits x in Ret (sign_z (fst r) :: snd r)
  | OI x, EBytesLe => do r <- ito_bytes_le (hp_bytes P) x; Ret (sign_z (fst r) :: snd r)
  | OI x, EBytesBe => do r <- ito_bytes_be (hp_bytes P) x; Ret (sign_z (fst r) :: snd r)
  | OI x, ESignedLe => to_signed_bytes_le (hp_bytes P) x
  | OI x, ESignedBe => to_signed_bytes_be (hp_bytes P) x
  | OI x, EBits => Ret [ibits x]
  | OI x, ETrailingZeros => Ret (match itrailing_zeros x with Some k => [k] | None => [] end)
  | _, _ => ill
  end.

Definition exports_u : list export := [EU32; EU64; EBytesLe; EBytesBe; EBits; ECountOnes; ETrailingZeros; EText 10; EText 16].
Definition exports_i : list export := [EU32; EU64; EBytesLe; EBytesBe; ESignedLe; ESignedBe; EBits; ETrailingZeros; EText 10; EText 16].
Definition exports_for (s : obj) : list export := match s with OU _ => exports_u | OI _ => exports_i end.

Fixpoint all_exports (P : hist_params) (es : list export) (s : obj) : outcome (list (list Z)) :=
  match es with
  | [] => Ret []
  | e :: r => do x <- export_of P e s; do xs <- all_exports P r s; Ret (x :: xs)
  end.

Fixpoint lists_eqb (a b : list (list Z)) : list bool :=
  match a, b with
  | x :: a', y :: b' => list_eqb x y :: lists_eqb a' b'
  | _, _ => []
  end.

(** `x.sign() == NoSign` iff `x.is_zero()` (BigUint: `is_zero` iff no digits) *)
Definition nosign_iff_zero_b (s : obj) : bool :=
  match s with
  | OU d => true
  | OI x => Bool.eqb (sign_eqb (isign x) NoSign) (uis_zero (imagnitude x))
  end.

(** * What `hist.pair` observes on two objects of the same kind *)
Record pair_obs := mkPO {
  po_eq : bool;                 (* a == b *)
  po_cmp : comparison;          (* a.cmp(&b) *)
  po_hash : bool;               (* the two hash streams are equal *)
  po_exports : list bool;       (* each export of a equals that of b *)
  po_max : bool;                (* a.clone().max(b.clone()) == a *)
  po_min : bool;                (* a.clone().min(b.clone()) == a *)
  po_nosign_a : bool; po_nosign_b : bool
}.

Definition observe_pair (P : hist_params) (a b : obj) : outcome pair_obs :=
  do e <- oeq a b;
  do c <- ocmp (hp_sign P) a b;
  do ha <- hash_stream a;
  do hb <- hash_stream b;
  do xa <- all_exports P (exports_for a) a;
  do xb <- all_exports P (exports_for b) b;
  do mx <- omax (hp_sign P) a b; do emx <- oeq mx a;
  do mn <- omin (hp_sign P) a b; do emn <- oeq mn a;
  Ret (mkPO e c (list_eqb ha hb) (lists_eqb xa xb) emx emn (nosign_iff_zero_b a) (nosign_iff_zero_b b)).
