(* Modpow.v — executable model of src/biguint/power.rs (`modpow`, `plain_modpow`),
   src/biguint.rs (`BigUint::modinv`), src/bigint/power.rs (`modpow`) and src/bigint.rs
   (`BigInt::modinv`, with the zero guard).  Definitions only; specs are proved in
   proofs/ModpowProofs.v.  The big multiplication and division of the other areas are
   section parameters.  Internal sites 540–569. *)
From BigNum Require Import Base AddSub ShiftCore Monty.
Open Scope Z_scope.

Section WithBigOps.
Variable ap : addsub_params.
Variable bmul : list Z -> list Z -> outcome (list Z).
Variable bdivrem : list Z -> list Z -> outcome (list Z * list Z).
Notation brem := (Monty.brem bdivrem).

Definition u_is_zero (a : list Z) : bool := match a with [] => true | _ => false end.
Definition u_is_one (a : list Z) : bool := match a with [d] => d =? 1 | _ => false end.
Definition u_is_odd (a : list Z) : bool := match a with d :: _ => Z.odd d | [] => false end.

(** `base = &base * &base % modulus` *)
Definition sqmod (base m : list Z) : outcome (list Z) :=
  do s <- bmul base base; brem s m.

(** `for _ in 0..i { for _ in 0..BITS { base = base*base % m } }`, [k] = 64*i squarings *)
Fixpoint sq_times (k : nat) (base m : list Z) : outcome (list Z) :=
  match k with
  | O => Ret base
  | S k' => do b <- sqmod base m; sq_times k' b m
  end.

(** `while r.is_even() { base = …; r >>= 1; b += 1 }` *)
Fixpoint strip_even (fuel : nat) (base m : list Z) (r b : Z) : outcome (list Z * Z * Z) :=
  match fuel with
  | O => OutOfFuel
  | S f =>
      if Z.even r then
        do base' <- sqmod base m;
        do _ <- assert_ (b + 1 <? 256) (Internal 541);      (* b: u8 *)
        strip_even f base' m (r / 2) (b + 1)
      else Ret (base, r, b)
  end.

(** the `unit` closure: state = (base, acc) *)
Definition unit_step (m : list Z) (st : list Z * list Z) (odd : bool) : outcome (list Z * list Z) :=
  let '(base, acc) := st in
  do base' <- sqmod base m;
  if odd then
    do a1 <- bmul acc base';              (* acc *= &base *)
    do a2 <- brem a1 m;                   (* acc %= modulus *)
    Ret (base', a2)
  else Ret (base', acc).

(** `for _ in lo..hi { unit(r.is_odd()); r >>= 1 }` with [k] = hi - lo iterations *)
Fixpoint unit_n (k : nat) (m : list Z) (r : Z) (st : list Z * list Z) : outcome (list Z * list Z) :=
  match k with
  | O => Ret st
  | S k' => do st' <- unit_step m st (Z.odd r); unit_n k' m (r / 2) st'
  end.

(** `for &r in exp_iter { 64 × unit }` *)
Fixpoint unit_digits (m : list Z) (ds : list Z) (st : list Z * list Z) : outcome (list Z * list Z) :=
  match ds with
  | [] => Ret st
  | r :: ds' => do st' <- unit_n 64 m r st; unit_digits m ds' st'
  end.

(** `while !r.is_zero() { unit(r.is_odd()); r >>= 1 }` *)
Fixpoint unit_while (fuel : nat) (m : list Z) (r : Z) (st : list Z * list Z) : outcome (list Z * list Z) :=
  match fuel with
  | O => OutOfFuel
  | S f => if r =? 0 then Ret st
           else do st' <- unit_step m st (Z.odd r); unit_while f m (r / 2) st'
  end.

(** `exp_data.iter().position(|&r| r != 0)` → (index, digit, rest after it) *)
Fixpoint first_nonzero (l : list Z) (i : nat) : option (nat * Z * list Z) :=
  match l with
  | [] => None
  | d :: r => if d =? 0 then first_nonzero r (S i) else Some (i, d, r)
  end.

Definition plain_modpow (base exp_data modulus : list Z) : outcome (list Z) :=
  do _ <- assert_ (negb (u_is_zero modulus)) ZeroModulus;
  match first_nonzero exp_data 0 with
  | None => Ret [1]
  | Some (i, d, rest) =>
      do base <- brem base modulus;
      do base <- sq_times (64 * i)%nat base modulus;
      do s <- strip_even 65 base modulus d 0;
      let '(base, r, b) := s in
      if u_is_zero rest && (r =? 1) then Ret base
      else
        let acc := base in
        let r := r / 2 in
        do _ <- assert_ (b + 1 <? 256) (Internal 542);
        let b := b + 1 in
        do sr <-
          match rev rest with
          | last :: mid_rev =>          (* exp_iter.next_back() = Some(last) *)
              do st1 <- unit_n (Z.to_nat (64 - b)) modulus r (base, acc);
              do st2 <- unit_digits modulus (rev mid_rev) st1;
              Ret (st2, last)
          | [] => Ret ((base, acc), r)
          end;
        let '(st, r) := sr in
        do _ <- assert_ (negb (r =? 0)) (Internal 543);      (* debug_assert_ne!(r, 0) *)
        do st' <- unit_while 65 modulus r st;
        Ret (snd st')
  end.

(** `biguint::power::modpow` *)
Definition umodpow (p : modpow_params) (x e m : list Z) : outcome (list Z) :=
  do _ <- assert_ (negb (u_is_zero m)) ZeroModulus;
  if Bool.eqb (u_is_odd m) (mp_odd_monty p) then monty_modpow ap bdivrem p x e m
  else plain_modpow x e m.

(** `BigUint::modinv` *)
Definition modinv_fuel (m : list Z) : nat := (128 * length m + 2)%nat.

Fixpoint modinv_loop (fuel : nat) (m r0 r1 t0 t1 : list Z) : outcome (option (list Z)) :=
  match fuel with
  | O => OutOfFuel
  | S f =>
      if u_is_zero r1 then Ret (if u_is_one r0 then Some t0 else None)
      else
        do qr <- bdivrem r0 r1;
        let '(q, r2) := qr in
        do qt <- bmul q t1;
        do qt1 <- brem qt m;
        do c <- cmp_slice t0 qt1;
        do t2 <- match c with
                 | Lt => do d <- usub_ref_val ap m qt1; uadd ap t0 d
                 | _ => usub ap t0 qt1
                 end;
        modinv_loop f m r1 r2 t1 t2
  end.

Definition umodinv (a m : list Z) : outcome (option (list Z)) :=
  do _ <- assert_ (negb (u_is_zero m)) ZeroModulus;
  if u_is_one m then Ret (Some [])
  else
    do r1 <- brem a m;
    if u_is_zero r1 then Ret None
    else if u_is_one r1 then Ret (Some r1)
    else
      do qr <- bdivrem m r1;
      let '(q, r2) := qr in
      if u_is_zero r2 then Ret None
      else
        do t1 <- usub_ref_val ap m q;
        modinv_loop (modinv_fuel m) m r1 r2 [1] t1.

(** ** BigInt *)
Definition i_is_negative (x : bigint) : bool := sign_eqb (sg x) Minus.
Definition i_is_zero (x : bigint) : bool := sign_eqb (sg x) NoSign.

(** the `match (a, b) { … }` tables: first arm whose pattern equals the scrutinee *)
Fixpoint arm_lookup (arms : list (bool * bool * (sign * bool))) (a b : bool) : option (sign * bool) :=
  match arms with
  | [] => None
  | (a', b', r) :: rest => if Bool.eqb a a' && Bool.eqb b b' then Some r else arm_lookup rest a b
  end.

Definition place_sign (arms : list (bool * bool * (sign * bool))) (a b : bool)
           (m result : list Z) : outcome bigint :=
  match arm_lookup arms a b with
  | None => Panic (Internal 550)
  | Some (s, flip) =>
      do mag <- (if flip then usub_ref_val ap m result else Ret result);
      Ret (from_biguint s mag)
  end.

Definition imodpow (p : modpow_params) (x e m : bigint) : outcome bigint :=
  do _ <- assert_ (negb (i_is_negative e)) NegExponent;
  do _ <- assert_ (negb (i_is_zero m)) ZeroModulus;
  do result <- umodpow p (mag x) (mag e) (mag m);
  if u_is_zero result then Ret (mkint NoSign [])
  else place_sign (mp_pow_arms p) (i_is_negative x && u_is_odd (mag e)) (i_is_negative m) (mag m) result.

Definition imodinv (p : modpow_params) (x m : bigint) : outcome (option bigint) :=
  do r <- umodinv (mag x) (mag m);
  match r with
  | None => Ret None
  | Some result =>
      if mp_inv_zero_guard p && u_is_zero result then Ret (Some (mkint NoSign []))
      else do v <- place_sign (mp_inv_arms p) (i_is_negative x) (i_is_negative m) (mag m) result;
           Ret (Some v)
  end.

End WithBigOps.
