(* Cfg.v — classification of the feature-conditional sites of the source (C16) and of the
   panic sites (C14).  The site lists are regenerated from /repo by tools/extractors. *)
From BigNum Require Import Base.
Open Scope Z_scope.

Inductive cfg_kind :=
| FileGate            (* #![cfg(feature = ..)] at the top of a module file *)
| ItemGate            (* top-level mod / use / impl / fn gated as a whole *)
| LetCapacity         (* let-binding used only as a Vec::with_capacity argument *)
| LetRootGuess        (* let-binding used only as the initial guess of `fixpoint` *)
| CfgOther (code : Z). (* anything else: feature-conditional code inside arithmetic *)

Record cfg_site := { cs_line : Z; cs_kind : cfg_kind }.

Definition cfg_ok (s : cfg_site) : bool :=
  match cs_kind s with
  | FileGate | ItemGate | LetCapacity | LetRootGuess => true
  | CfgOther _ => false
  end.

(** * Panic sites (C14) *)
Inductive site_class :=
| Documented (k : panic_kind)   (* one of the documented failure cases of the public API *)
| Unreachable (site : Z)        (* internal check: modelled as [Internal site] (or dominated by one) and
                                   excluded by the refinement theorems ("= Ret …" for every valid input) *)
| DepContract                   (* precondition of dependency code / infallible by type (e.g. to_usize of a small value) *)
| Unclassified.                 (* not in the reviewed baseline: a new unconditional panic site *)

Record panic_site := { ps_line : Z; ps_class : site_class }.

Definition site_ok (s : panic_site) : bool :=
  match ps_class s with Unclassified => false | _ => true end.

(** * Normalisation call sites (C04) *)
Record norm_site := { ns_line : Z; ns_calls : Z; ns_expected : Z }.
Definition norm_ok (s : norm_site) : bool := ns_expected s <=? ns_calls s.
