(* Cfg.v — classification of the feature-conditional sites of the source (C16) and of the
   panic sites (C14).  The site lists are regenerated from /repo by tools/extractors. *)
From BigNum Require Import Base.
Open Scope Z_scope.

Inductive cfg_kind :=
| FileGate            (* #![cfg(feature = ..)] at the top of a module file *)
| ItemGate            (* top-level mod / use / impl / fn gated as a whole *)
| LetCapacity         (* let-binding used only as a Vec::with_capacity argument *)
| LetRootGuess        (* let-binding used only as the initial guess of `fixpoint` *)
| CfgOther (code : Z). (* anything else: feature-conditional code inside arithmetic *)

Record cfg_site := { cs_line : Z; cs_kind : cfg_kind }.

Definition cfg_ok (s : cfg_site) : bool :=
  match cs_kind s with
  | FileGate | ItemGate | LetCapacity | LetRootGuess => true
  | CfgOther _ => false
  end.
