(* Sign.v — executable model of the sign / negation / identity helpers (C19):
   src/bigint.rs (Neg, Signed, Zero, One, Default, sign, magnitude, into_parts, from_biguint,
   new, from_slice, assign_from_slice, to_biguint, Ord), src/biguint.rs (Zero, One, Default),
   src/bigint/convert.rs (From<BigUint>, ToBigInt, ToBigUint, TryFrom<BigInt>),
   src/bigint/multiplication.rs (Mul<Sign> for Sign).  Definitions only.
   [ineg] lives in AddSub.v, [from_biguint], [sign_neg], [sign_mul] in Base.v. *)
From BigNum Require Import Base AddSub.
Open Scope Z_scope.

(** * BigUint identities *)
Definition uzero : list Z := [].                       (* BigUint::ZERO / zero() / default() *)
Definition uone : list Z := [1].                       (* BigUint::one(): vec![1] *)
Definition uis_zero (m : list Z) : bool :=             (* data.is_empty() *)
  match m with [] => true | _ => false end.
Definition uis_one (m : list Z) : bool :=              (* data[..] == [1] *)
  match m with [d] => d =? 1 | _ => false end.
Definition uset_zero (m : list Z) : list Z := [].      (* data.clear() *)
Definition uset_one (m : list Z) : list Z := [1].      (* data.clear(); data.push(1) *)

(** * BigInt identities *)
Definition izero : bigint := mkint NoSign [].          (* BigInt::ZERO / zero() / default() *)
Definition ione : bigint := mkint Plus uone.           (* BigInt::one() *)
Definition iis_zero (x : bigint) : bool := sign_eqb (sg x) NoSign.
Definition iis_one (x : bigint) : bool := sign_eqb (sg x) Plus && uis_one (mag x).
Definition iset_zero (x : bigint) : bigint := mkint NoSign (uset_zero (mag x)).
Definition iset_one (x : bigint) : bigint := mkint Plus (uset_one (mag x)).

(** `From<BigUint> for BigInt` (= `ToBigInt for BigUint` up to the `Some`). *)
Definition ifrom_u (m : list Z) : bigint :=
  if uis_zero m then izero else mkint Plus m.

(** * Sign queries *)
Definition isign (x : bigint) : sign := sg x.
Definition imagnitude (x : bigint) : list Z := mag x.
Definition into_parts (x : bigint) : sign * list Z := (sg x, mag x).
Definition is_positive (x : bigint) : bool := sign_eqb (sg x) Plus.
Definition is_negative (x : bigint) : bool := sign_eqb (sg x) Minus.

Definition iabs (x : bigint) : bigint :=
  match sg x with
  | Plus | NoSign => x
  | Minus => ifrom_u (mag x)
  end.

Definition isignum (x : bigint) : bigint :=
  match sg x with
  | Plus => ione
  | Minus => ineg ione
  | NoSign => izero
  end.

(** `Ord for BigInt` (derived order on `Sign`: Minus < NoSign < Plus), with its two
    debug assertions `(sign != NoSign) ^ data.is_zero()`. *)
Definition sign_cmp (a b : sign) : comparison := sign_z a ?= sign_z b.
Definition sign_consistent (x : bigint) : bool :=
  xorb (negb (sign_eqb (sg x) NoSign)) (uis_zero (mag x)).
Definition icmp (x y : bigint) : outcome comparison :=
  do _ <- assert_ (sign_consistent x) (Internal 1401);
  do _ <- assert_ (sign_consistent y) (Internal 1402);
  match sign_cmp (sg x) (sg y) with
  | Eq => match sg x with
          | NoSign => Ret Eq
          | Plus => cmp_slice (mag x) (mag y)
          | Minus => cmp_slice (mag y) (mag x)
          end
  | c => Ret c
  end.

(** `Signed::abs_sub`: `if *self <= *other { ZERO } else { self - other }` *)
Definition abs_sub (p : addsub_params) (x y : bigint) : outcome bigint :=
  do c <- icmp x y;
  match c with
  | Gt => isub p x y
  | _ => Ret izero
  end.

(** * Conversions between the two types *)
Definition to_biguint (x : bigint) : option (list Z) :=   (* BigInt::to_biguint, ToBigUint for BigInt *)
  match sg x with
  | Plus => Some (mag x)
  | NoSign => Some uzero
  | Minus => None
  end.
Definition try_into_biguint (x : bigint) : option (list Z) :=  (* TryFrom<BigInt> for BigUint *)
  if sign_eqb (sg x) Minus then None else Some (mag x).
Definition u_to_bigint (m : list Z) : option bigint := Some (ifrom_u m).  (* ToBigInt for BigUint *)
Definition i_to_bigint (x : bigint) : option bigint := Some x.            (* ToBigInt for BigInt *)
Definition u_to_biguint (m : list Z) : option (list Z) := Some m.         (* ToBigUint for BigUint *)

(** * Constructors from base-2^32 words: `BigUint::new / from_slice / assign_from_slice`
    (64-bit arm: `slice.chunks(2).map(u32_chunk_to_u64)`, then `normalize`), and the
    `BigInt` versions which canonicalise the sign. *)
Definition W32 : Z := 4294967296.
Fixpoint u32_pairs (w : list Z) : list Z :=
  match w with
  | [] => []
  | [lo] => [lo]
  | lo :: hi :: r => (lo + W32 * hi) :: u32_pairs r
  end.
Definition u_from_slice (w : list Z) : list Z := strip (u32_pairs w).
Definition i_from_slice (s : sign) (w : list Z) : bigint := from_biguint s (u_from_slice w).
(** `assign_from_slice(&mut self, sign, slice)`: the previous value [x] is irrelevant. *)
Definition i_assign_from_slice (x : bigint) (s : sign) (w : list Z) : bigint :=
  match s with
  | NoSign => iset_zero x
  | _ => let m := u_from_slice w in mkint (if uis_zero m then NoSign else s) m
  end.
