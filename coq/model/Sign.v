(* Sign.v — executable model of the sign / negation / identity helpers (C19):
   src/bigint.rs (Neg, Signed, Zero, One, Default, sign, magnitude, into_parts, from_biguint,
   new, from_slice, assign_from_slice, to_biguint, Ord), src/biguint.rs (Zero, One, Default),
   src/bigint/convert.rs (From<BigUint>, ToBigInt, ToBigUint, TryFrom<BigInt>),
   src/bigint/multiplication.rs (Mul<Sign> for Sign).  Definitions only.
   [ineg] lives in AddSub.v, [from_biguint], [sign_neg], [sign_mul] in Base.v.
   The arms / tests of abs, abs_sub, signum, is_positive, is_negative, is_zero, Ord::cmp, to_biguint
   (inherent and trait), TryFrom<BigInt> and From<BigUint> are read from the source on every run
   (tools/extractors/sign.py -> [sign_params]); the proofs are generic under [sign_ok]. *)
From BigNum Require Import Base SrcLit AddSub.
Open Scope Z_scope.

(** Source-extracted decision points (tools/extractors/sign.py). *)
Inductive tb_arm := TbData | TbZero | TbNone.     (* `Some(self.data.clone())` | `Some(BigUint::ZERO)` | `None` *)
Record tobu_arms := { tb_plus : tb_arm; tb_nosign : tb_arm; tb_minus : tb_arm }.
Record sign_params := {
  sgp_abs_conv : sign;           (* abs: the arm `.. => BigInt::from(self.data.clone())`      -> Minus *)
  sgp_abs_sub_cmp : cmpop;       (* abs_sub: `if *self <= *other { ZERO } else { self - other }` -> Cle *)
  sgp_signum_plus : Z;           (* signum: `Plus => BigInt::one()`                            -> 1 *)
  sgp_signum_minus : Z;          (* signum: `Minus => -BigInt::one()`                          -> -1 *)
  sgp_signum_nosign : Z;         (* signum: `NoSign => Self::ZERO`                             -> 0 *)
  sgp_pos_eq : bool;             (* is_positive: `self.sign == Plus` is an `==`                -> true *)
  sgp_pos_sign : sign;           (*                                                            -> Plus *)
  sgp_neg_eq : bool;             (* is_negative: `self.sign == Minus`                          -> true *)
  sgp_neg_sign : sign;           (*                                                            -> Minus *)
  sgp_zero_eq : bool;            (* is_zero: `self.sign == NoSign`                             -> true *)
  sgp_zero_sign : sign;          (*                                                            -> NoSign *)
  sgp_cmp_ne : bool;             (* Ord::cmp: `if scmp != Equal { return scmp; }` is a `!=`    -> true *)
  sgp_cmp_lit : comparison;      (*                                                            -> Eq *)
  sgp_cmp_nosign : comparison;   (* Ord::cmp: `NoSign => Equal`                                -> Eq *)
  sgp_cmp_plus_fwd : bool;       (* Ord::cmp: `Plus => self.data.cmp(&other.data)`             -> true *)
  sgp_cmp_minus_fwd : bool;      (* Ord::cmp: `Minus => other.data.cmp(&self.data)`            -> false *)
  sgp_from_biguint_shape : bool; (* from_biguint has the shape of Base.from_biguint (guard)    -> true *)
  sgp_tobu : tobu_arms;          (* BigInt::to_biguint: `Plus => Some(data), NoSign => Some(ZERO), Minus => None` *)
  sgp_tobu_trait : tobu_arms;    (* ToBigUint for BigInt: the same three arms *)
  sgp_try_eq : bool;             (* TryFrom<BigInt>: `if value.sign() == Sign::Minus { Err }`  -> true *)
  sgp_try_sign : sign;           (*                                                            -> Minus *)
  sgp_from_u_neg : bool;         (* From<BigUint>: `if n.is_zero()` is negated                 -> false *)
  sgp_from_u_sign : sign         (* From<BigUint>: `BigInt { sign: Plus, data: n }`            -> Plus *)
}.

(** * BigUint identities *)
Definition uzero : list Z := [].                       (* BigUint::ZERO / zero() / default() *)
Definition uone : list Z := [1].                       (* BigUint::one(): vec![1] *)
Definition uis_zero (m : list Z) : bool :=             (* data.is_empty() *)
  match m with [] => true | _ => false end.
Definition uis_one (m : list Z) : bool :=              (* data[..] == [1] *)
  match m with [d] => d =? 1 | _ => false end.
Definition uset_zero (m : list Z) : list Z := [].      (* data.clear() *)
Definition uset_one (m : list Z) : list Z := [1].      (* data.clear(); data.push(1) *)

(** * BigInt identities *)
Definition izero : bigint := mkint NoSign [].          (* BigInt::ZERO / zero() / default() *)
Definition ione : bigint := mkint Plus uone.           (* BigInt::one() *)
Definition iis_zero (p : sign_params) (x : bigint) : bool := sign_test (sgp_zero_eq p) (sg x) (sgp_zero_sign p).
Definition iis_one (x : bigint) : bool := sign_eqb (sg x) Plus && uis_one (mag x).
Definition iset_zero (x : bigint) : bigint := mkint NoSign (uset_zero (mag x)).
Definition iset_one (x : bigint) : bigint := mkint Plus (uset_one (mag x)).

(** `From<BigUint> for BigInt` (= `ToBigInt for BigUint` up to the `Some`). *)
Definition ifrom_u (p : sign_params) (m : list Z) : bigint :=
  if blit (sgp_from_u_neg p) (uis_zero m) then izero else mkint (sgp_from_u_sign p) m.

(** * Sign queries *)
Definition isign (x : bigint) : sign := sg x.
Definition imagnitude (x : bigint) : list Z := mag x.
Definition into_parts (x : bigint) : sign * list Z := (sg x, mag x).
Definition is_positive (p : sign_params) (x : bigint) : bool := sign_test (sgp_pos_eq p) (sg x) (sgp_pos_sign p).
Definition is_negative (p : sign_params) (x : bigint) : bool := sign_test (sgp_neg_eq p) (sg x) (sgp_neg_sign p).

(** `match self.sign { <one sign> => BigInt::from(self.data.clone()), <the others> => self.clone() }` *)
Definition iabs (p : sign_params) (x : bigint) : bigint :=
  if sign_eqb (sg x) (sgp_abs_conv p) then ifrom_u p (mag x) else x.

(** an arm of signum: `BigInt::one()` (1), `-BigInt::one()` (-1) or `Self::ZERO` (anything else) *)
Definition signum_arm (k : Z) : bigint :=
  if k =? 1 then ione else if k =? -1 then ineg ione else izero.
Definition isignum (p : sign_params) (x : bigint) : bigint :=
  match sg x with
  | Plus => signum_arm (sgp_signum_plus p)
  | Minus => signum_arm (sgp_signum_minus p)
  | NoSign => signum_arm (sgp_signum_nosign p)
  end.

(** `Ord for BigInt` (derived order on `Sign`: Minus < NoSign < Plus), with its two
    debug assertions `(sign != NoSign) ^ data.is_zero()`. *)
Definition sign_cmp (a b : sign) : comparison := sign_z a ?= sign_z b.
Definition sign_consistent (x : bigint) : bool :=
  xorb (negb (sign_eqb (sg x) NoSign)) (uis_zero (mag x)).
(** `let scmp = self.sign.cmp(&other.sign); if scmp != Equal { return scmp; }
    match self.sign { NoSign => Equal, Plus => self.data.cmp(&other.data), Minus => other.data.cmp(&self.data) }` *)
Definition cmp_dir (fwd : bool) (a b : list Z) : outcome comparison :=
  if fwd then cmp_slice a b else cmp_slice b a.
Definition icmp (p : sign_params) (x y : bigint) : outcome comparison :=
  do _ <- assert_ (sign_consistent x) (Internal 1401);
  do _ <- assert_ (sign_consistent y) (Internal 1402);
  let scmp := sign_cmp (sg x) (sg y) in
  if blit (sgp_cmp_ne p) (comparison_eqb scmp (sgp_cmp_lit p)) then Ret scmp
  else match sg x with
       | NoSign => Ret (sgp_cmp_nosign p)
       | Plus => cmp_dir (sgp_cmp_plus_fwd p) (mag x) (mag y)
       | Minus => cmp_dir (sgp_cmp_minus_fwd p) (mag x) (mag y)
       end.

(** `Signed::abs_sub`: `if *self <= *other { ZERO } else { self - other }` *)
Definition abs_sub (sp : sign_params) (p : addsub_params) (x y : bigint) : outcome bigint :=
  do c <- icmp sp x y;
  if cmp_ord (sgp_abs_sub_cmp sp) c then Ret izero else isub p x y.

(** * Conversions between the two types *)
Definition tobu_eval (a : tobu_arms) (x : bigint) : option (list Z) :=
  let arm := match sg x with Plus => tb_plus a | NoSign => tb_nosign a | Minus => tb_minus a end in
  match arm with TbData => Some (mag x) | TbZero => Some uzero | TbNone => None end.
Definition to_biguint (p : sign_params) (x : bigint) : option (list Z) :=         (* BigInt::to_biguint *)
  tobu_eval (sgp_tobu p) x.
Definition to_biguint_trait (p : sign_params) (x : bigint) : option (list Z) :=   (* ToBigUint for BigInt *)
  tobu_eval (sgp_tobu_trait p) x.
Definition try_into_biguint (p : sign_params) (x : bigint) : option (list Z) :=   (* TryFrom<BigInt> for BigUint *)
  if sign_test (sgp_try_eq p) (sg x) (sgp_try_sign p) then None else Some (mag x).
Definition u_to_bigint (p : sign_params) (m : list Z) : option bigint := Some (ifrom_u p m).  (* ToBigInt for BigUint *)
Definition i_to_bigint (x : bigint) : option bigint := Some x.            (* ToBigInt for BigInt *)
Definition u_to_biguint (m : list Z) : option (list Z) := Some m.         (* ToBigUint for BigUint *)

(** * Constructors from base-2^32 words: `BigUint::new / from_slice / assign_from_slice`
    (64-bit arm: `slice.chunks(2).map(u32_chunk_to_u64)`, then `normalize`), and the
    `BigInt` versions which canonicalise the sign. *)
Definition W32 : Z := 4294967296.
Fixpoint u32_pairs (w : list Z) : list Z :=
  match w with
  | [] => []
  | [lo] => [lo]
  | lo :: hi :: r => (lo + W32 * hi) :: u32_pairs r
  end.
Definition u_from_slice (w : list Z) : list Z := strip (u32_pairs w).
Definition i_from_slice (s : sign) (w : list Z) : bigint := from_biguint s (u_from_slice w).
(** `assign_from_slice(&mut self, sign, slice)`: the previous value [x] is irrelevant. *)
Definition i_assign_from_slice (x : bigint) (s : sign) (w : list Z) : bigint :=
  match s with
  | NoSign => iset_zero x
  | _ => let m := u_from_slice w in mkint (if uis_zero m then NoSign else s) m
  end.
