(* FormsLeaves.v — C10: value-level restatement of the hand-written leaf impls the forwarding
   forms end in.

   The digit-level models of the BigUint operations belong to other areas (C01 add/sub, C02 mul,
   C03 div/rem, C07 bits/shifts, C12 pow).  Here they appear only through their VALUE-level
   behaviour, as Section variables:
       uop o x y      the BigUint (op) BigUint leaves (any val/ref combination, and (op)=)
       uop_s o x s    BigUint (op) uN and BigUint (op)= uN, N in {32, 64, 128}
       s_uop o s x    uN (op) BigUint for the non-commutative Sub, Div, Rem
       ushift o x k   biguint_shl / biguint_shr::<T>(x, k)   (k of any of the 12 primitive types)
       upow_s x e     Pow<uN> for BigUint,   upow_b x e   Pow<&BigUint> for BigUint
       iop o x y      the BigInt (op) BigInt leaves
       uchk_sub x y   CheckedSub for BigUint
   What IS restated here are the thin BigInt-with-scalar leaves (sign dispatch through
   `checked_uabs` / `unsigned_abs` over the BigUint scalar leaves), the `&BigUint` pow guards,
   the BigInt shifts / pow wrappers and `scalar %= &BigUint` for the 12 primitive types
   (`impl_rem_assign_scalar!`, `impl_rem_assign_signed_scalar!` of src/biguint/division.rs).
   Definitions only. *)
From Coq Require Import ZArith List Bool.
From BigNum Require Import Base Forms.
Import ListNotations.
Open Scope Z_scope.

Section Leaves.
  Variable uop : opk -> Z -> Z -> outcome Z.
  Variable uop_s : opk -> Z -> Z -> outcome Z.
  Variable s_uop : opk -> Z -> Z -> outcome Z.
  Variable ushift : opk -> Z -> Z -> outcome Z.
  Variable upow_s : Z -> Z -> outcome Z.
  Variable upow_b : Z -> Z -> outcome Z.
  Variable iop : opk -> Z -> Z -> outcome Z.

  Definition neg_o (r : outcome Z) : outcome Z := omap Z.opp r.
  Definition sgn_o (x : Z) (r : outcome Z) : outcome Z := omap (fun m => Z.sgn x * m) r.   (* BigInt::from_biguint(x.sign, m) *)

  (* src/bigint/addition.rs: impl Add<uN> for BigInt (and AddAssign<uN> through it) *)
  Definition iadd_u (x s : Z) : outcome Z :=
    if x =? 0 then Ret s
    else if 0 <? x then uop_s OpAdd x s
    else match Z.abs x ?= s with
         | Eq => Ret 0
         | Lt => s_uop OpSub s (Z.abs x)
         | Gt => neg_o (uop_s OpSub (Z.abs x) s)
         end.
  (* src/bigint/subtraction.rs: impl Sub<uN> for BigInt *)
  Definition isub_u (x s : Z) : outcome Z :=
    if x =? 0 then Ret (- s)
    else if x <? 0 then neg_o (uop_s OpAdd (Z.abs x) s)
    else match x ?= s with
         | Eq => Ret 0
         | Gt => uop_s OpSub x s
         | Lt => neg_o (s_uop OpSub s x)
         end.
  (* impl Sub<BigInt> for uN:  -(other - self) *)
  Definition u_isub (s x : Z) : outcome Z := neg_o (isub_u x s).
  (* iN through checked_uabs: Positive(u) / Negative(u) with u = |s| (wrapping_neg as unsigned) *)
  Definition iadd_i (x s : Z) : outcome Z := if 0 <=? s then iadd_u x s else isub_u x (- s).
  Definition isub_i (x s : Z) : outcome Z := if 0 <=? s then isub_u x s else iadd_u x (- s).
  (* impl Sub<BigInt> for iN:  Positive(u) => u - other,  Negative(u) => -other - u *)
  Definition i_isub (s x : Z) : outcome Z := if 0 <=? s then u_isub s x else isub_u (- x) (- s).

  (* src/bigint/multiplication.rs *)
  Definition imul_u (x s : Z) : outcome Z := sgn_o x (uop_s OpMul (Z.abs x) s).
  Definition imul_i (x s : Z) : outcome Z := if 0 <=? s then imul_u x s else imul_u (- x) (- s).

  (* src/bigint/division.rs *)
  Definition idiv_u (x s : Z) : outcome Z := sgn_o x (uop_s OpDiv (Z.abs x) s).
  Definition u_idiv (s x : Z) : outcome Z := sgn_o x (s_uop OpDiv s (Z.abs x)).
  Definition idiv_i (x s : Z) : outcome Z := if 0 <=? s then idiv_u x s else idiv_u (- x) (- s).
  Definition i_idiv (s x : Z) : outcome Z := if 0 <=? s then u_idiv s x else u_idiv (- s) (- x).
  Definition irem_u (x s : Z) : outcome Z := sgn_o x (uop_s OpRem (Z.abs x) s).
  Definition u_irem (s x : Z) : outcome Z := s_uop OpRem s (Z.abs x).
  Definition irem_i (x s : Z) : outcome Z := irem_u x (Z.abs s).                 (* self % other.unsigned_abs() *)
  Definition i_irem (s x : Z) : outcome Z := if 0 <=? s then u_irem s x else neg_o (u_irem (- s) x).

  (* src/bigint/shift.rs *)
  Definition ishl (x k : Z) : outcome Z := sgn_o x (ushift OpShl (Z.abs x) k).
  (* zeros < shift, for a non-zero magnitude m: 2^k does not divide m *)
  Definition tz_lt (m k : Z) : bool := if Z.log2 m <? k then true else negb (m mod 2 ^ k =? 0).
  Definition shr_round_down (x k : Z) : bool := (x <? 0) && (0 <? k) && tz_lt (Z.abs x) k.
  Definition ishr (x k : Z) : outcome Z :=
    let rd := shr_round_down x k in
    bind (ushift OpShr (Z.abs x) k) (fun d =>
    bind (if rd then uop_s OpAdd d 1 else Ret d) (fun d' => Ret (Z.sgn x * d'))).

  (* src/biguint/power.rs: Pow<T> for &BigUint and Pow<&BigUint> for &BigUint guard before cloning *)
  Definition upow_s_ref (x e : Z) : outcome Z := if e =? 0 then Ret 1 else upow_s x e.
  Definition upow_b_ref (x e : Z) : outcome Z :=
    if (x =? 1) || (e =? 0) then Ret 1 else if x =? 0 then Ret 0 else upow_b x e.
  (* src/bigint/power.rs: powsign *)
  Definition powsign (x e : Z) : Z :=
    if e =? 0 then 1 else if negb (x <? 0) || Z.odd e then Z.sgn x else - Z.sgn x.
  Definition ipow (up : Z -> Z -> outcome Z) (x e : Z) : outcome Z :=
    omap (fun m => powsign x e * m) (up (Z.abs x) e).

  (* src/biguint/division.rs: impl RemAssign<&BigUint> for $scalar — the result is the new scalar.
     `other.to_uN()` is None when the divisor does not fit the unsigned type of the same width. *)
  Definition umax (t : sty) : Z := 2 ^ sbits t - 1.
  Definition srem_assign (t : sty) (s u : Z) : outcome Z :=
    if umax t <? u then Ret s
    else if u =? 0 then Panic DivZero
    else if ssigned t then
      let r := wrap t (Z.abs s mod u) in            (* (self.unsigned_abs() % v) as $scalar *)
      Ret (if s <? 0 then wrap t (- r) else r)      (* r.wrapping_neg() *)
    else Ret (s mod u).

  Definition leaf_model (f : form) (x y : Z) : outcome Z :=
    match k_ty (f_lhs f), k_ty (f_rhs f) with
    | OBig FamU, OBig _ =>
        match f_op f with
        | OpPow => if k_ref (f_lhs f) then upow_b_ref x y else upow_b x y
        | o => uop o x y
        end
    | OBig FamI, OBig FamI => iop (f_op f) x y
    | OBig FamI, OBig FamU =>
        match f_op f with
        | OpPow => ipow (if k_ref (f_lhs f) then upow_b_ref else upow_b) x y
        | _ => Panic (Internal 1010)
        end
    | OBig FamU, OSc s =>
        match f_op f with
        | OpShl | OpShr => ushift (f_op f) x y
        | OpPow => if k_ref (f_lhs f) then upow_s_ref x y else upow_s x y
        | o => uop_s o x y
        end
    | OBig FamI, OSc s =>
        match f_op f with
        | OpAdd => if ssigned s then iadd_i x y else iadd_u x y
        | OpSub => if ssigned s then isub_i x y else isub_u x y
        | OpMul => if ssigned s then imul_i x y else imul_u x y
        | OpDiv => if ssigned s then idiv_i x y else idiv_u x y
        | OpRem => if ssigned s then irem_i x y else irem_u x y
        | OpShl => ishl x y
        | OpShr => ishr x y
        | OpPow => ipow (if k_ref (f_lhs f) then upow_s_ref else upow_s) x y
        | _ => Panic (Internal 1010)
        end
    | OSc s, OBig FamU =>
        match f_role f with
        | RAssign => srem_assign s x y
        | _ => s_uop (f_op f) x y
        end
    | OSc s, OBig FamI =>
        match f_op f with
        | OpSub => if ssigned s then i_isub x y else u_isub x y
        | OpDiv => if ssigned s then i_idiv x y else u_idiv x y
        | OpRem => if ssigned s then i_irem x y else u_irem x y
        | _ => Panic (Internal 1010)
        end
    | OSc _, OSc _ => Panic (Internal 1010)
    end.
End Leaves.

(* CheckedSub for BigUint (src/biguint/subtraction.rs): match self.cmp(v) *)
Definition uchecked_sub_model (usub : Z -> Z -> outcome Z) (x y : Z) : outcome (option Z) :=
  match x ?= y with
  | Lt => Ret None
  | Eq => Ret (Some 0)
  | Gt => omap Some (usub x y)
  end.

(* the instance run by the driver: every BigUint-level operation is its Z-level meaning *)
Definition leaf_z : form -> Z -> Z -> outcome Z :=
  leaf_model (zsem FamU) (zsem FamU) (zsem FamU) (zsem FamU) (zsem FamU OpPow) (zsem FamU OpPow) (zsem FamI).
Definition leafc_z (f : form) (x y : Z) : outcome (option Z) :=
  uchecked_sub_model (zsem FamU OpSub) x y.

(* ---- what the driver runs for one case: the rows selected by the case, and how many of them
   agree with the reference on the case's operand pair (bv = the big operand, sv = the other) ---- *)
Definition out_eqb (a b : outcome Z) : bool :=
  match a, b with Ret x, Ret y => x =? y | Panic _, Panic _ => true | _, _ => false end.
Definition sel_scalar (fm : bigty) (o : opk) (t : sty) (f : form) : bool :=
  is_arith_role (f_role f) && opk_eqb (f_op f) o && bigty_eqb (fam f) fm &&
  match form_scalar f with Some t' => sty_eqb t t' | None => false end.
Definition sel_big (fm fm2 : bigty) (o : opk) (f : form) : bool :=
  is_arith_role (f_role f) && opk_eqb (f_op f) o && oty_eqb (k_ty (f_lhs f)) (OBig fm) && oty_eqb (k_ty (f_rhs f)) (OBig fm2).
Definition agree (tbl : list form) (bv sv : Z) (f : form) : bool :=
  let x := match k_ty (f_lhs f) with OSc _ => sv | OBig _ => bv end in
  let y := match k_ty (f_lhs f) with OSc _ => bv | OBig _ => sv end in
  let want := zsem (fam f) (f_op f) x y in
  out_eqb (eval_form leaf_z tbl (fun _ _ _ => true) f x y) want &&
  out_eqb (eval_form leaf_z tbl (fun _ _ _ => false) f x y) want.
Definition run_sel (tbl : list form) (sel : form -> bool) (bv sv : Z) : Z * Z :=
  let rows := filter sel tbl in
  (Z.of_nat (length rows), Z.of_nat (length (filter (agree tbl bv sv) rows))).
