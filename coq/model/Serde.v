(* Serde.v — executable model of src/biguint/serde.rs and src/bigint/serde.rs (64-bit-digit
   arm): the serialized form is a sequence of u32 words with a declared length; BigInt is
   the pair (sign as i8, that sequence).  serde's Serializer / SeqAccess protocol itself is
   modelled, not verified: a serialized value is (declared length, element list); the input
   of deserialization is (size hint, element list) where elements that do not fit a u32 make
   serde's own u32 visitor fail.  Definitions only.
   The declared-length formula, the `last_hi != 0` tests, the pairing shifts, the Sign <-> i8
   tables and the final `from_biguint` are read from the source on every run
   (tools/extractors/serde.py -> [serde_params]); the proofs are generic under [serde_ok]. *)
From BigNum Require Import Base Iter.
Open Scope Z_scope.

(** Source-extracted decision points (tools/extractors/serde.py). *)
Record serde_params := {
  sdp_last_shift : Z;      (* serialize: `let last_hi = (last >> 32) as u32`               -> 32 *)
  sdp_len_mul : Z;         (* serialize: `data.len() * 2 + ..`                             -> 2 *)
  sdp_len_one : Z;         (* serialize: `.. + 1 + ..`                                     -> 1 *)
  sdp_len_cmp : cmpop;     (* serialize: `.. + (last_hi != 0) as usize`                    -> Cne *)
  sdp_elem_shift : Z;      (* serialize: `seq.serialize_element(&((x >> 32) as u32))`      -> 32 *)
  sdp_emit_cmp : cmpop;    (* serialize: `if last_hi != 0 { ..element(&last_hi) }`         -> Cne *)
  sdp_de_shift : Z;        (* visit_seq: `value |= BigDigit::from(hi) << 32`               -> 32 *)
  sdp_ser_minus : Z;       (* Serialize for Sign: `Sign::Minus => (-1i8)`                  -> -1 *)
  sdp_ser_nosign : Z;      (*                     `Sign::NoSign => 0i8`                    -> 0 *)
  sdp_ser_plus : Z;        (*                     `Sign::Plus => 1i8`                      -> 1 *)
  sdp_de_arms : list (Z * sign);  (* Deserialize for Sign: `-1 => Ok(Sign::Minus), 0 => .., 1 => .., _ => Err` *)
  sdp_from_biguint : bool  (* Deserialize for BigInt: `Ok(BigInt::from_biguint(sign, data))` -> true *)
}.

(** `(d >> k) as u32` of a u64 *)
Definition shr32 (k d : Z) : Z := (d / 2 ^ k) mod W32.

(** Serialize for BigUint: `if let Some((&last, data)) = self.data.split_last()`:
    declared length `data.len() * 2 + 1 + (last_hi != 0) as usize`, then lo/hi of every
    lower digit, last_lo, and last_hi only if non-zero.  Zero: the empty `&[u32]`, whose
    slice impl declares Some(0). *)
Definition ser_biguint (p : serde_params) (u : list Z) : Z * list Z :=
  match last_opt u with
  | Some last =>
      let data := removelast u in
      let last_lo := lo32 last in
      let last_hi := shr32 (sdp_last_shift p) last in
      let u32_len := Z.of_nat (length data) * sdp_len_mul p + sdp_len_one p
                     + (if cmp_eval (sdp_len_cmp p) last_hi 0 then 1 else 0) in
      (u32_len,
       flat_map (fun x => [lo32 x; shr32 (sdp_elem_shift p) x]) data
       ++ last_lo :: (if cmp_eval (sdp_emit_cmp p) last_hi 0 then [last_hi] else []))
  | None => (0, [])
  end.

(** `cautious(seq.size_hint())` then `div_ceil(.., 2)`: only a Vec capacity *)
Definition cautious (hint : option Z) : Z :=
  Z.min (match hint with Some h => h | None => 0 end) (1024 * 1024 / 4).

(** U32Visitor::visit_seq: `while let Some(lo) = next { if let Some(hi) = next { push(lo | hi << 32) }
    else { push(lo); break } }` *)
Fixpoint de_pairs (p : serde_params) (w : list Z) : list Z :=
  match w with
  | [] => []
  | [lo] => [lo]
  | lo :: hi :: r => Z.lor lo ((hi * 2 ^ sdp_de_shift p) mod B) :: de_pairs p r
  end.

(** `biguint_from_vec(data)` = normalized *)
Definition de_biguint (p : serde_params) (w : list Z) : list Z := strip (de_pairs p w).

(** the same with the size hint made explicit: (capacity requested, value) *)
Definition de_biguint_hinted (p : serde_params) (hint : option Z) (w : list Z) : Z * list Z :=
  ((cautious hint + 1) / 2, de_biguint p w).

(** element tokens that are not u32 values are rejected (by serde's primitive visitor) *)
Definition is_u32 (x : Z) : bool := (0 <=? x) && (x <? W32).
Definition de_biguint_tokens (p : serde_params) (hint : option Z) (w : list Z) : option (list Z) :=
  if forallb is_u32 w then Some (snd (de_biguint_hinted p hint w)) else None.

(** Sign <-> i8 *)
Definition ser_sign (p : serde_params) (s : sign) : Z :=
  match s with Minus => sdp_ser_minus p | NoSign => sdp_ser_nosign p | Plus => sdp_ser_plus p end.
(** the `match sign { k => Ok(..), .., _ => Err(..) }` arms, first match wins *)
Fixpoint match_arms (arms : list (Z * sign)) (v : Z) : option sign :=
  match arms with
  | [] => None
  | (k, s) :: r => if v =? k then Some s else match_arms r v
  end.
Definition de_sign (p : serde_params) (v : Z) : option sign := match_arms (sdp_de_arms p) v.

(** BigInt = the 2-tuple (sign, magnitude); deserialization goes through from_biguint *)
Definition ser_bigint (p : serde_params) (x : bigint) : Z * (Z * list Z) :=
  (ser_sign p (sg x), ser_biguint p (mag x)).
Definition de_bigint (p : serde_params) (v : Z) (hint : option Z) (w : list Z) : option bigint :=
  match de_sign p v with
  | None => None
  | Some s => match de_biguint_tokens p hint w with
              | None => None
              | Some m => Some (if sdp_from_biguint p then from_biguint s m else mkint s m)
              end
  end.
