(* Serde.v — executable model of src/biguint/serde.rs and src/bigint/serde.rs (64-bit-digit
   arm): the serialized form is a sequence of u32 words with a declared length; BigInt is
   the pair (sign as i8, that sequence).  serde's Serializer / SeqAccess protocol itself is
   modelled, not verified: a serialized value is (declared length, element list); the input
   of deserialization is (size hint, element list) where elements that do not fit a u32 make
   serde's own u32 visitor fail.  Definitions only. *)
From BigNum Require Import Base Iter.
Open Scope Z_scope.

(** Serialize for BigUint: `if let Some((&last, data)) = self.data.split_last()`:
    declared length `data.len() * 2 + 1 + (last_hi != 0) as usize`, then lo/hi of every
    lower digit, last_lo, and last_hi only if non-zero.  Zero: the empty `&[u32]`, whose
    slice impl declares Some(0). *)
Definition ser_biguint (u : list Z) : Z * list Z :=
  match last_opt u with
  | Some last =>
      let data := removelast u in
      let last_lo := lo32 last in
      let last_hi := hi32 last in
      let u32_len := Z.of_nat (length data) * 2 + 1 + (if last_hi =? 0 then 0 else 1) in
      (u32_len,
       flat_map (fun x => [lo32 x; hi32 x]) data ++ last_lo :: (if last_hi =? 0 then [] else [last_hi]))
  | None => (0, [])
  end.

(** `cautious(seq.size_hint())` then `div_ceil(.., 2)`: only a Vec capacity *)
Definition cautious (hint : option Z) : Z :=
  Z.min (match hint with Some h => h | None => 0 end) (1024 * 1024 / 4).

(** U32Visitor::visit_seq: `while let Some(lo) = next { if let Some(hi) = next { push(lo | hi << 32) }
    else { push(lo); break } }` *)
Fixpoint de_pairs (w : list Z) : list Z :=
  match w with
  | [] => []
  | [lo] => [lo]
  | lo :: hi :: r => Z.lor lo ((hi * 2 ^ 32) mod B) :: de_pairs r
  end.

(** `biguint_from_vec(data)` = normalized *)
Definition de_biguint (w : list Z) : list Z := strip (de_pairs w).

(** the same with the size hint made explicit: (capacity requested, value) *)
Definition de_biguint_hinted (hint : option Z) (w : list Z) : Z * list Z :=
  ((cautious hint + 1) / 2, de_biguint w).

(** element tokens that are not u32 values are rejected (by serde's primitive visitor) *)
Definition is_u32 (x : Z) : bool := (0 <=? x) && (x <? W32).
Definition de_biguint_tokens (hint : option Z) (w : list Z) : option (list Z) :=
  if forallb is_u32 w then Some (snd (de_biguint_hinted hint w)) else None.

(** Sign <-> i8 *)
Definition ser_sign (s : sign) : Z := match s with Minus => -1 | NoSign => 0 | Plus => 1 end.
Definition de_sign (v : Z) : option sign :=
  if v =? -1 then Some Minus else if v =? 0 then Some NoSign else if v =? 1 then Some Plus
  else None.

(** BigInt = the 2-tuple (sign, magnitude); deserialization goes through from_biguint *)
Definition ser_bigint (x : bigint) : Z * (Z * list Z) := (ser_sign (sg x), ser_biguint (mag x)).
Definition de_bigint (v : Z) (hint : option Z) (w : list Z) : option bigint :=
  match de_sign v with
  | None => None
  | Some s => match de_biguint_tokens hint w with
              | None => None
              | Some m => Some (from_biguint s m)
              end
  end.
