(* RadixKernels.v — the routines of other areas called by the radix code, bound to the models
   of those areas:
     k_mac      := Mul.mac_with_carry                `mac_with_carry(0, *d, base, &mut carry)`
     k_mul p    := Mul.umul (rp_mul p)               `&big_base * &big_base`
     k_divrem p := Div.udivrem (rp_div p)            `digits.div_rem(&big_base)`
     k_divdig   := Div.div_rem_digit
     k_from_bits / k_from_inexact / k_to_bits / k_to_inexact := BitDigits.*_digits_le *)
From BigNum Require Import Base AddSub Mul Div BitDigits Radix.
Open Scope Z_scope.

Definition k_mac (p : radix_params) : Z -> Z -> Z -> Z -> outcome (Z * Z) := mac_with_carry.
Definition k_mul (p : radix_params) : list Z -> list Z -> outcome (list Z) := umul (rp_mul p).
Definition k_divrem (p : radix_params) : list Z -> list Z -> outcome (list Z * list Z) :=
  udivrem (rp_div p).
Definition k_divdig (p : radix_params) : list Z -> Z -> outcome (list Z * Z) := div_rem_digit.
Definition k_from_bits (p : radix_params) := from_bitwise_digits_le.
Definition k_from_inexact (p : radix_params) := from_inexact_bitwise_digits_le.
Definition k_to_bits (p : radix_params) := to_bitwise_digits_le.
Definition k_to_inexact (p : radix_params) := to_inexact_bitwise_digits_le.
