(* RadixKernels.v — the routines of other areas called by the radix code, bound to the models
   of those areas:
     k_divrem p := Div.udivrem (rp_div p)         `digits.div_rem(&big_base)`
     k_divdig   := Div.div_rem_digit
     k_from_bits / k_from_inexact / k_to_bits / k_to_inexact := BitDigits.*_digits_le
   PROVISIONAL (Mul.v not merged yet): k_mac and k_mul are the Z-level SPECIFICATION of
   `mac_with_carry` and of `&BigUint * &BigUint`, not models of their code; to be rebound to
   Mul.mac_with_carry and Mul.umul (rp_mul p), see docs/notes/radix.md. *)
From BigNum Require Import Base AddSub Div BitDigits Radix.
Open Scope Z_scope.

Definition k_mac (p : radix_params) (a b c acc : Z) : outcome (Z * Z) :=
  let s := acc + a + b * c in Ret (s mod B, s / B).
Definition k_mul (p : radix_params) (a b : list Z) : outcome (list Z) :=
  Ret (enc (val a * val b)).
Definition k_divrem (p : radix_params) : list Z -> list Z -> outcome (list Z * list Z) :=
  udivrem (rp_div p).
Definition k_divdig (p : radix_params) : list Z -> Z -> outcome (list Z * Z) := div_rem_digit.
Definition k_from_bits (p : radix_params) := from_bitwise_digits_le.
Definition k_from_inexact (p : radix_params) := from_inexact_bitwise_digits_le.
Definition k_to_bits (p : radix_params) := to_bitwise_digits_le.
Definition k_to_inexact (p : radix_params) := to_inexact_bitwise_digits_le.
