(* RadixKernels.v — the routines of other areas called by the radix code.
   PROVISIONAL: until Mul.v / Div.v / BitDigits.v are merged, each kernel is the Z-level
   SPECIFICATION of the routine it stands for (not a model of its code).  After the merge
   this file binds the real models (see docs/notes/radix.md):
     k_mac      := Mul.mac_with_carry
     k_mul p    := Mul.umul (rp_mul p)
     k_divrem p := Div.udivrem (rp_div p)
     k_divdig   := Div.div_rem_digit
     k_from_bits / k_from_inexact / k_to_bits / k_to_inexact := BitDigits.* *)
From BigNum Require Import Base AddSub Radix SpecRadix.
Open Scope Z_scope.

Definition k_mac (p : radix_params) (a b c acc : Z) : outcome (Z * Z) :=
  let s := acc + a + b * c in Ret (s mod B, s / B).
Definition k_mul (p : radix_params) (a b : list Z) : outcome (list Z) :=
  Ret (enc (val a * val b)).
Definition k_divrem (p : radix_params) (a b : list Z) : outcome (list Z * list Z) :=
  if val b =? 0 then Panic DivZero else Ret (enc (val a / val b), enc (val a mod val b)).
Definition k_divdig (p : radix_params) (a : list Z) (b : Z) : outcome (list Z * Z) :=
  if b =? 0 then Panic DivZero else Ret (enc (val a / b), val a mod b).
Definition k_from_bits (p : radix_params) (v : list Z) (bits : Z) : outcome (list Z) :=
  Ret (enc (dsum (2 ^ bits) v)).
Definition k_from_inexact (p : radix_params) (v : list Z) (bits : Z) : outcome (list Z) :=
  Ret (enc (dsum (2 ^ bits) v)).
Definition k_to_bits (p : radix_params) (u : list Z) (bits : Z) : outcome (list Z) :=
  Ret (digits_le (2 ^ bits) (val u)).
Definition k_to_inexact (p : radix_params) (u : list Z) (bits : Z) : outcome (list Z) :=
  Ret (digits_le (2 ^ bits) (val u)).
