(* Div.v — executable model of src/biguint/division.rs, the division part of
   src/bigint/division.rs and the `Integer` division methods of src/biguint.rs / src/bigint.rs
   (64-bit digits, x86_64: FAST_DIV_WIDE = true, so `div_half` is dead code and not modelled).
   Definitions only; proofs are in proofs/DivProofs*.v.
   Internal sites used: 301–350. *)
From BigNum Require Import Base AddSub ShiftCore.
Open Scope Z_scope.

(** Pre-checks of `div_rem` / `div_rem_ref`, in source order. *)
Inductive precheck := PcDZero | PcUZero | PcLen1 | PcCmp.
Definition precheck_eqb (a b : precheck) : bool :=
  match a, b with
  | PcDZero, PcDZero | PcUZero, PcUZero | PcLen1, PcLen1 | PcCmp, PcCmp => true
  | _, _ => false
  end.

(** Source-extracted parameters of this area (tools/extractors/div.py). *)
Record div_params := {
  dp_as : addsub_params;        (* the add/sub kernels used by the add-back step *)
  dp_a0_cmp : cmpop;            (* div_rem_core: `if a0 < b0` *)
  dp_r_cmp : cmpop;             (* refinement loop: `r <= MAX` *)
  dp_q_cmp : cmpop;             (* refinement loop: `[r,a2] < q0 * b1` *)
  dp_borrow_cmp : cmpop;        (* `if borrow > a0` *)
  dp_pre_val : list precheck;   (* order of the pre-checks in `div_rem` *)
  dp_pre_ref : list precheck;   (* order of the pre-checks in `div_rem_ref` *)
  dp_shift_cmp : cmpop;         (* `if shift == 0` (both copies agree) *)
  dp_u32_short : bool;          (* `Rem`: the `to_u32` short-cut is present (both copies) *)
  (* presence of the `is_zero` guard in each checked_* method *)
  dp_g_udiv : bool; dp_g_udiv_euclid : bool; dp_g_urem_euclid : bool; dp_g_udiv_rem_euclid : bool;
  dp_g_idiv : bool; dp_g_idiv_euclid : bool; dp_g_irem_euclid : bool; dp_g_idiv_rem_euclid : bool;
  dp_g_idiv_inherent : bool;
}.

Definition MAXD : Z := B - 1.
Definition is_zero (l : list Z) : bool := match l with [] => true | _ => false end.
(** `From<u64> for BigUint`, `From<u128> for BigUint` *)
Definition of_u64 (n : Z) : list Z := if n =? 0 then [] else [n].
Definition of_u128 (n : Z) : list Z :=
  if n =? 0 then [] else if n / B =? 0 then [n mod B] else [n mod B; n / B].

(** * Leaves *)

(** `div_wide(hi, lo, divisor)`: the hardware `div`; `hi < divisor` is its #DE precondition
    (debug_assert in debug builds, SIGFPE in release). *)
Definition div_wide (hi lo d : Z) : outcome (Z * Z) :=
  do _ <- assert_ (hi <? d) (Internal 301);
  let n := hi * B + lo in Ret (n / d, n mod d).

(** the `for d in a.data.iter_mut().rev()` loop: most significant digit first = innermost call. *)
Fixpoint div_digit_loop (a : list Z) (b : Z) : outcome (list Z * Z) :=
  match a with
  | [] => Ret ([], 0)
  | d :: r =>
      do x <- div_digit_loop r b;
      let '(q, rem) := x in
      do y <- div_wide rem d b;
      let '(qd, rem') := y in Ret (qd :: q, rem')
  end.

Definition div_rem_digit (a : list Z) (b : Z) : outcome (list Z * Z) :=
  if b =? 0 then Panic DivZero
  else do x <- div_digit_loop a b; let '(q, rem) := x in Ret (strip q, rem).

Definition rem_digit (a : list Z) (b : Z) : outcome Z :=
  if b =? 0 then Panic DivZero
  else do x <- div_digit_loop a b; Ret (snd x).

(** `sub_mul_digit_same_len(a, b, c)`: a -= b * c, returns the borrow.  All arithmetic is u128
    (`DoubleBigDigit`) with debug overflow checks, evaluated left to right as written:
    ((to_dd(MAX, x) - MAX) + offset_carry) - y * c. *)
Fixpoint sub_mul_loop (oc : Z) (a b : list Z) (c : Z) : outcome (list Z * Z) :=
  match a, b with
  | x :: a', y :: b' =>
      let t1 := MAXD * B + x in
      do _ <- assert_ (MAXD <=? t1) (Internal 311);
      let t2 := t1 - MAXD in
      let t3 := t2 + oc in
      do _ <- assert_ (t3 <? BB) (Internal 312);
      let m := y * c in
      do _ <- assert_ (m <? BB) (Internal 313);
      do _ <- assert_ (m <=? t3) (Internal 314);
      let t4 := t3 - m in
      do r <- sub_mul_loop (t4 / B) a' b' c;
      let '(ra, oc') := r in Ret ((t4 mod B) :: ra, oc')
  | _, _ => Ret (a, oc)
  end.

Definition sub_mul_digit_same_len (a b : list Z) (c : Z) : outcome (list Z * Z) :=
  do _ <- assert_ (length a =? length b)%nat (Internal 310);
  do r <- sub_mul_loop MAXD a b c;
  let '(a', oc) := r in
  do _ <- assert_ (oc <=? MAXD) (Internal 315);
  Ret (a', MAXD - oc).

(** * Knuth algorithm D *)

(** first estimate: `[a0,a1] / b0`, or the MAX branch when `a0 == b0` *)
Definition qhat_init (p : div_params) (a0 a1 b0 : Z) : outcome (Z * Z) :=
  if cmp_eval (dp_a0_cmp p) a0 b0 then div_wide a0 a1 b0
  else
    do _ <- assert_ (a0 =? b0) (Internal 325);
    Ret (MAXD, a0 + a1).

(** the 3-by-2 refinement `while`; at most two decrements happen for a normalised divisor,
    [fuel] = number of evaluations of the loop condition. *)
Fixpoint qhat_loop (p : div_params) (fuel : nat) (q0 r a2 b0 b1 : Z) : outcome (Z * Z) :=
  match fuel with
  | O => OutOfFuel
  | S f =>
      if cmp_eval (dp_r_cmp p) r MAXD && cmp_eval (dp_q_cmp p) ((r mod B) * B + a2) (q0 * b1) then
        do _ <- assert_ (1 <=? q0) (Internal 326);
        do _ <- assert_ (r + b0 <? BB) (Internal 327);
        qhat_loop p f (q0 - 1) (r + b0) a2 b0 b1
      else Ret (q0, r)
  end.
Definition qhat_fuel : nat := 4.

(** multiply-subtract on the window `a[j..]`, conditional add-back, `borrow == a0` assert.
    Returns the final quotient digit and the new window. *)
Definition mulsub_fix (p : div_params) (hi : list Z) (a0 q0 : Z) (b : list Z) : outcome (Z * list Z) :=
  do sm <- sub_mul_digit_same_len hi b q0;
  let '(hi1, borrow) := sm in
  do x <- (if cmp_eval (dp_borrow_cmp p) borrow a0 then
             do _ <- assert_ (1 <=? q0) (Internal 328);
             do r <- add2c (dp_as p) hi1 b;
             let '(hi2, c) := r in
             do _ <- assert_ (c <=? borrow) (Internal 329);
             Ret (q0 - 1, hi2, borrow - c)
           else Ret (q0, hi1, borrow));
  let '(q0', hi', borrow') := x in
  do _ <- assert_ (borrow' =? a0) (Internal 330);
  Ret (q0', hi').

(** one iteration of `for j in (0..q_len).rev()`: returns (q0, a after the pop, new a0). *)
Definition knuth_step (p : div_params) (j : nat) (a : list Z) (a0 : Z) (b : list Z) (b0 b1 : Z)
  : outcome (Z * list Z * Z) :=
  do _ <- assert_ (length a =? length b + j)%nat (Internal 322);
  match rev a with
  | a1 :: a2 :: _ =>
      do qr <- qhat_init p a0 a1 b0;
      let '(q0, r) := qr in
      do qr' <- qhat_loop p qhat_fuel q0 r a2 b0 b1;
      let '(q1, _) := qr' in
      do _ <- assert_ (j <=? length a)%nat (Internal 324);
      do x <- mulsub_fix p (skipn j a) a0 q1 b;
      let '(q2, hi') := x in
      let a' := firstn j a ++ hi' in
      match rev a' with
      | t :: _ => Ret (q2, removelast a', t)
      | [] => Panic (Internal 331)
      end
  | _ => Panic (Internal 323)
  end.

(** [k] = remaining iterations (j = k-1).  Returns (low k quotient digits, a, a0). *)
Fixpoint core_loop (p : div_params) (k : nat) (a : list Z) (a0 : Z) (b : list Z) (b0 b1 : Z)
  : outcome (list Z * list Z * Z) :=
  match k with
  | O => Ret ([], a, a0)
  | S j =>
      do s <- knuth_step p j a a0 b b0 b1;
      let '(q0, a', a0') := s in
      do r <- core_loop p j a' a0' b b0 b1;
      let '(ql, af, a0f) := r in
      Ret (ql ++ [q0], af, a0f)
  end.

Definition div_rem_core (p : div_params) (a b : list Z) : outcome (list Z * list Z) :=
  do _ <- assert_ ((length b <=? length a)%nat && (1 <? length b)%nat) (Internal 320);
  match rev b with
  | b0 :: b1 :: _ =>
      do _ <- assert_ (B / 2 <=? b0) (Internal 321);       (* leading_zeros() == 0 *)
      let q_len := (length a - length b + 1)%nat in
      do r <- core_loop p q_len a 0 b b0 b1;
      let '(q, af, a0f) := r in
      let rem := strip (af ++ [a0f]) in
      do c <- cmp_slice rem b;
      do _ <- assert_ (match c with Lt => true | _ => false end) (Internal 332);
      Ret (strip q, rem)
  | _ => Panic (Internal 320)
  end.

(** * `div_rem` / `div_rem_ref` *)

(** `leading_zeros` of a non-zero digit *)
Definition lz (d : Z) : Z := 63 - Z.log2 d.

Definition knuth_path (p : div_params) (u d : list Z) : outcome (list Z * list Z) :=
  match rev d with
  | [] => Panic (Internal 340)                       (* d.data.last().unwrap() *)
  | top :: _ =>
      let shift := if top =? 0 then 64 else lz top in
      if cmp_eval (dp_shift_cmp p) shift 0 then div_rem_core p u d
      else
        do qr <- div_rem_core p (ushl u shift) (ushl d shift);
        let '(q, r) := qr in Ret (q, ushr r shift)
  end.

(** [byval] selects the by-value copy (`div_rem`: remainder built with `d.clear(); d += rem`,
    quotient one with `set_one`) or the by-reference copy (`div_rem_ref`). *)
Fixpoint run_pre (p : div_params) (byval : bool) (cs : list precheck) (u d : list Z)
  : outcome (list Z * list Z) :=
  match cs with
  | [] => knuth_path p u d
  | PcDZero :: cs' => if is_zero d then Panic DivZero else run_pre p byval cs' u d
  | PcUZero :: cs' => if is_zero u then Ret ([], []) else run_pre p byval cs' u d
  | PcLen1 :: cs' =>
      match d with
      | [d0] =>
          if d0 =? 1 then Ret (u, [])
          else
            do x <- div_rem_digit u d0;
            let '(q, rem) := x in
            if byval then do r <- uadd_digit (dp_as p) [] rem; Ret (q, r)
            else Ret (q, of_u64 rem)
      | _ => run_pre p byval cs' u d
      end
  | PcCmp :: cs' =>
      do c <- cmp_slice u d;
      match c with
      | Lt => Ret ([], u)
      | Eq => Ret ([1], [])
      | Gt => run_pre p byval cs' u d
      end
  end.

Definition udivrem_val (p : div_params) (u d : list Z) := run_pre p true (dp_pre_val p) u d.
(** `Integer::div_rem` = `div_rem_ref` *)
Definition udivrem (p : div_params) (u d : list Z) := run_pre p false (dp_pre_ref p) u d.

(** `&a / &b`, `a / b` *)
Definition udiv (p : div_params) (a b : list Z) : outcome (list Z) :=
  do x <- udivrem p a b; Ret (fst x).
Definition udiv_val (p : div_params) (a b : list Z) : outcome (list Z) :=
  do x <- udivrem_val p a b; Ret (fst x).

(** `ToPrimitive` on canonical-or-not digit vectors (64-bit digits) *)
Definition to_u64 (l : list Z) : option Z :=
  match l with [] => Some 0 | [d] => Some d | _ => None end.
Definition to_u128 (l : list Z) : option Z :=
  match l with [] => Some 0 | [d] => Some d | [d; e] => Some (d + B * e) | _ => None end.
Definition to_u32 (l : list Z) : option Z :=
  match to_u64 l with Some d => if d <? 2 ^ 32 then Some d else None | None => None end.

(** `&a % &b`, `a % b`: the `to_u32` short-cut goes through `rem_digit` *)
Definition urem_gen (p : div_params) (dr : list Z -> list Z -> outcome (list Z * list Z))
           (a b : list Z) : outcome (list Z) :=
  match (if dp_u32_short p then to_u32 b else None) with
  | Some v => do r <- rem_digit a v; Ret (of_u64 r)
  | None => do x <- dr a b; Ret (snd x)
  end.
Definition urem (p : div_params) := urem_gen p (udivrem p).
Definition urem_val (p : div_params) := urem_gen p (udivrem_val p).

(** `Integer for BigUint` *)
Definition udiv_floor := udiv.
Definition umod_floor (p : div_params) (a b : list Z) : outcome (list Z) :=
  do x <- udivrem p a b; Ret (snd x).
Definition udiv_mod_floor := udivrem.
Definition udiv_ceil (p : div_params) (a b : list Z) : outcome (list Z) :=
  do x <- udivrem p a b;
  let '(d, m) := x in
  if is_zero m then Ret d else uadd_digit (dp_as p) d 1.

(** `Euclid for BigUint` *)
Definition udiv_euclid := udiv.
Definition urem_euclid := urem.
Definition udiv_rem_euclid := udivrem.

(** `CheckedDiv`, `CheckedEuclid` for BigUint *)
Definition guarded {A} (g : bool) (z : bool) (f : outcome A) : outcome (option A) :=
  if g && z then Ret None else do r <- f; Ret (Some r).
Definition uchecked_div (p : div_params) (a b : list Z) :=
  guarded (dp_g_udiv p) (is_zero b) (udiv p a b).
Definition uchecked_div_euclid (p : div_params) (a b : list Z) :=
  guarded (dp_g_udiv_euclid p) (is_zero b) (udiv_euclid p a b).
Definition uchecked_rem_euclid (p : div_params) (a b : list Z) :=
  guarded (dp_g_urem_euclid p) (is_zero b) (urem_euclid p a b).
Definition uchecked_div_rem_euclid (p : div_params) (a b : list Z) :=
  guarded (dp_g_udiv_rem_euclid p) (is_zero b) (udiv_rem_euclid p a b).

(** * Scalar forms (BigUint).  [s] is the scalar's value. *)
Definition udiv_u32 (p : div_params) (a : list Z) (s : Z) : outcome (list Z) :=
  do x <- div_rem_digit a s; Ret (fst x).
Definition udiv_u64 (p : div_params) (a : list Z) (s : Z) : outcome (list Z) :=
  do x <- udivrem_val p a (of_u64 s); Ret (fst x).
Definition udiv_u128 (p : div_params) (a : list Z) (s : Z) : outcome (list Z) :=
  do x <- udivrem_val p a (of_u128 s); Ret (fst x).
Definition urem_u32 (p : div_params) (a : list Z) (s : Z) : outcome (list Z) :=
  do r <- rem_digit a s; Ret (of_u64 r).
Definition urem_u64 (p : div_params) (a : list Z) (s : Z) : outcome (list Z) :=
  do x <- udivrem_val p a (of_u64 s); Ret (snd x).
Definition urem_u128 (p : div_params) (a : list Z) (s : Z) : outcome (list Z) :=
  do x <- udivrem_val p a (of_u128 s); Ret (snd x).

(** primitive `/` and `%` (panic on a zero divisor) *)
Definition prim_div (s v : Z) : outcome Z := if v =? 0 then Panic DivZero else Ret (s / v).
Definition prim_rem (s v : Z) : outcome Z := if v =? 0 then Panic DivZero else Ret (s mod v).

(** `u32 / BigUint`, `u64 / BigUint` (64-bit digit arm): by digit count *)
Definition digit_div_u (s : Z) (b : list Z) : outcome (list Z) :=
  match b with
  | [] => Panic DivZero
  | [d] => do q <- prim_div s d; Ret (of_u64 q)
  | _ => Ret []
  end.
(** `u128 / BigUint` *)
Definition u128_div_u (s : Z) (b : list Z) : outcome (list Z) :=
  match b with
  | [] => Panic DivZero
  | [d] => do q <- prim_div s d; Ret (of_u128 q)
  | [d; e] => do q <- prim_div s (d + B * e); Ret (of_u128 q)
  | _ => Ret []
  end.
(** `uN % BigUint` through `impl_rem_assign_scalar!`: [conv] = to_u32 / to_u64 / to_u128 *)
Definition scalar_rem_u (conv : list Z -> option Z) (s : Z) (b : list Z) : outcome Z :=
  match conv b with
  | None => Ret s
  | Some v => prim_rem s v
  end.
Definition u32_rem_u (s : Z) (b : list Z) : outcome (list Z) :=
  do r <- scalar_rem_u to_u32 s b; Ret (of_u64 r).
Definition u64_rem_u (s : Z) (b : list Z) : outcome (list Z) :=
  do r <- scalar_rem_u to_u64 s b; Ret (of_u64 r).
Definition u128_rem_u (s : Z) (b : list Z) : outcome (list Z) :=
  do r <- scalar_rem_u to_u128 s b; Ret (of_u128 r).

(** * BigInt *)
Definition iis_zero (x : bigint) : bool := sign_eqb (sg x) NoSign.
Definition iis_neg (x : bigint) : bool := sign_eqb (sg x) Minus.
Definition iis_pos (x : bigint) : bool := sign_eqb (sg x) Plus.
Definition ione : bigint := mkint Plus [1].
(** `BigInt::from(BigUint)` *)
Definition iof_u (m : list Z) : bigint := from_biguint Plus m.

(** `Integer::div_rem` for BigInt: truncation toward zero, remainder has the dividend's sign *)
Definition idiv_rem (p : div_params) (x y : bigint) : outcome (bigint * bigint) :=
  do qr <- udivrem p (mag x) (mag y);
  let '(d_ui, r_ui) := qr in
  let d := from_biguint (sg x) d_ui in
  let r := from_biguint (sg x) r_ui in
  Ret (if iis_neg y then (ineg d, r) else (d, r)).

Definition idiv (p : div_params) (x y : bigint) : outcome bigint :=
  do qr <- idiv_rem p x y; Ret (fst qr).

(** the `to_u32` / `to_i32` short-cuts of `Rem<&BigInt> for &BigInt`: the magnitude used *)
Definition ito_small (y : bigint) : option Z :=
  match sg y with
  | NoSign => Some 0
  | Plus => to_u32 (mag y)
  | Minus => match to_u64 (mag y) with
             | Some n => if n <=? 2 ^ 31 then Some n else None
             | None => None
             end
  end.
Definition irem (p : div_params) (x y : bigint) : outcome bigint :=
  match (if dp_u32_short p then ito_small y else None) with
  | Some v => do r <- rem_digit (mag x) v; Ret (from_biguint (sg x) (of_u64 r))
  | None => do qr <- idiv_rem p x y; Ret (snd qr)
  end.

(** `-d - 1u32`, `d + 1u32`, `q - 1`, `q + 1` are modelled through the BigInt-BigInt
    sign dispatch of AddSub (the scalar operator forms are C10's subject). *)
Definition same_sign_case (sx sy : sign) : outcome bool :=
  match sx, sy with
  | Plus, Plus | NoSign, Plus | Minus, Minus => Ret true
  | Plus, Minus | NoSign, Minus | Minus, Plus => Ret false
  | _, NoSign => Panic (Internal 350)                (* unreachable!() *)
  end.

Definition idiv_floor (p : div_params) (x y : bigint) : outcome bigint :=
  do dm <- udiv_mod_floor p (mag x) (mag y);
  let '(d_ui, m) := dm in
  let d := iof_u d_ui in
  do same <- same_sign_case (sg x) (sg y);
  if same then Ret d
  else if is_zero m then Ret (ineg d)
  else isub (dp_as p) (ineg d) ione.

Definition imod_floor (p : div_params) (x y : bigint) : outcome bigint :=
  do m_ui <- umod_floor p (mag x) (mag y);
  let m := from_biguint (sg y) m_ui in
  do same <- same_sign_case (sg x) (sg y);
  if same then Ret m
  else if iis_zero m then Ret m
  else isub (dp_as p) y m.

Definition idiv_mod_floor (p : div_params) (x y : bigint) : outcome (bigint * bigint) :=
  do dm <- udiv_mod_floor p (mag x) (mag y);
  let '(d_ui, m_ui) := dm in
  let d := iof_u d_ui in
  let m := from_biguint (sg y) m_ui in
  do same <- same_sign_case (sg x) (sg y);
  if same then Ret (d, m)
  else if iis_zero m then Ret (ineg d, m)
  else
    do d' <- isub (dp_as p) (ineg d) ione;
    do m' <- isub (dp_as p) y m;
    Ret (d', m').

Definition idiv_ceil (p : div_params) (x y : bigint) : outcome bigint :=
  do dm <- udiv_mod_floor p (mag x) (mag y);
  let '(d_ui, m) := dm in
  let d := iof_u d_ui in
  do same <- same_sign_case (sg x) (sg y);
  if same then (if is_zero m then Ret d else iadd (dp_as p) d ione)
  else Ret (ineg d).

(** `Euclid for BigInt` *)
Definition idiv_euclid (p : div_params) (x y : bigint) : outcome bigint :=
  do qr <- idiv_rem p x y;
  let '(q, r) := qr in
  if iis_neg r then
    if iis_pos y then isub (dp_as p) q ione else iadd (dp_as p) q ione
  else Ret q.

Definition irem_euclid (p : div_params) (x y : bigint) : outcome bigint :=
  do r <- irem p x y;
  if iis_neg r then
    if iis_pos y then iadd (dp_as p) r y else isub (dp_as p) r y
  else Ret r.

Definition idiv_rem_euclid (p : div_params) (x y : bigint) : outcome (bigint * bigint) :=
  do qr <- idiv_rem p x y;
  let '(q, r) := qr in
  if iis_neg r then
    if iis_pos y then
      do q' <- isub (dp_as p) q ione; do r' <- iadd (dp_as p) r y; Ret (q', r')
    else
      do q' <- iadd (dp_as p) q ione; do r' <- isub (dp_as p) r y; Ret (q', r')
  else Ret (q, r).

(** `CheckedDiv`, `CheckedEuclid` for BigInt, and the inherent `BigInt::checked_div` *)
Definition ichecked_div (p : div_params) (x y : bigint) :=
  guarded (dp_g_idiv p) (iis_zero y) (idiv p x y).
Definition ichecked_div_inherent (p : div_params) (x y : bigint) :=
  guarded (dp_g_idiv_inherent p) (iis_zero y) (idiv p x y).
Definition ichecked_div_euclid (p : div_params) (x y : bigint) :=
  guarded (dp_g_idiv_euclid p) (iis_zero y) (idiv_euclid p x y).
Definition ichecked_rem_euclid (p : div_params) (x y : bigint) :=
  guarded (dp_g_irem_euclid p) (iis_zero y) (irem_euclid p x y).
Definition ichecked_div_rem_euclid (p : div_params) (x y : bigint) :=
  guarded (dp_g_idiv_rem_euclid p) (iis_zero y) (idiv_rem_euclid p x y).
