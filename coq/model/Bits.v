(* Bits.v — executable model of src/biguint/bits.rs, src/bigint/bits.rs, the shift front ends
   of src/biguint/shift.rs and src/bigint/shift.rs, `Not` (src/bigint.rs) and the bit queries
   bits / trailing_zeros / trailing_ones / count_ones / bit / set_bit of both types (C07).
   Definitions only.  Internal sites 700-799.

   The nine sign-pair routines of src/bigint/bits.rs are written with two shared loop
   combinators ([zip_loop] for `for (ai,&bi) in a.iter_mut().zip(b.iter())`, [tail_loop] for
   the loops over the longer operand's remaining digits); the flags say which of the three
   running `negate_carry` chains the routine's loop body contains, so every routine below is
   its Rust loop body with the flags partially evaluated. *)
From BigNum Require Import Base X86 AddSub ShiftCore.
Open Scope Z_scope.

(** Source-extracted decision points (tools/extractors/bits.py). *)
Record bits_params := {
  bp_uand_len : cmpop;   (* BitAnd<&BigUint> for &BigUint: `self.data.len() <= other.data.len()` *)
  bp_uor_len : cmpop;    (* BitOrAssign:  `other.data.len() > self.data.len()` *)
  bp_uxor_len : cmpop;   (* BitXorAssign: `other.data.len() > self.data.len()` *)
  bp_round : cmpop;      (* shr_round_down: `zeros < shift` *)
  bp_round_pos : cmpop;  (* shr_round_down: `shift > T::zero()` *)
  bp_ibit_hi : cmpop;    (* BigInt::bit: `bit >= BITS * len` *)
  bp_snb_hi : cmpop;     (* set_negative_bit: `bit >= bits_per_digit * len` *)
  bp_snb_gt : cmpop;     (* `bit > trailing_zeros` *)
  bp_snb_eq : cmpop;     (* `bit == trailing_zeros && !value` *)
  bp_snb_lt : cmpop;     (* `bit < trailing_zeros && value` *)
  bp_set_ge : cmpop;     (* BigUint::set_bit: `digit_index >= self.data.len()` *)
  bp_set_lt : cmpop;     (* BigUint::set_bit: `digit_index < self.data.len()` *)
  bp_iand_len : cmpop;   (* BitAnd ref-ref (Minus,Minus): `self.len() >= other.len()` *)
  bp_ior_len : cmpop;    (* BitOr  ref-ref (Minus,Minus): `self.len() <= other.len()` *)
}.
Definition bits_default : bits_params :=
  {| bp_uand_len := Cle; bp_uor_len := Cgt; bp_uxor_len := Cgt; bp_round := Clt;
     bp_round_pos := Cgt; bp_ibit_hi := Cge; bp_snb_hi := Cge; bp_snb_gt := Cgt;
     bp_snb_eq := Ceq; bp_snb_lt := Clt; bp_set_ge := Cge; bp_set_lt := Clt;
     bp_iand_len := Cge; bp_ior_len := Cle |}.

Definition is_nil (l : list Z) : bool := match l with [] => true | _ => false end.
Definition zlen (l : list Z) : Z := Z.of_nat (length l).
Definition usize_max : Z := B - 1.
(** `Vec::<u64>::with_capacity(n)` / `resize` panic with "capacity overflow" when n*8 > isize::MAX;
    below that the allocation is assumed to succeed (out-of-memory is out of scope, C14). *)
Definition alloc_limit : Z := 2 ^ 60.

(** * BigUint & | ^ *)
(** `for (ai, &bi) in self.data.iter_mut().zip(other.data.iter()) { *ai op= bi }` *)
Fixpoint zip_with (f : Z -> Z -> Z) (a b : list Z) : list Z :=
  match a, b with
  | x :: a', y :: b' => f x y :: zip_with f a' b'
  | _, _ => a
  end.

Definition uand_assign (a b : list Z) : list Z :=
  strip (firstn (length b) (zip_with Z.land a b)).
Definition uor_assign (p : bits_params) (a b : list Z) : list Z :=
  let a1 := zip_with Z.lor a b in
  if cmp_eval (bp_uor_len p) (zlen b) (zlen a) then a1 ++ skipn (length a) b else a1.
Definition uxor_assign (p : bits_params) (a b : list Z) : list Z :=
  let a1 := zip_with Z.lxor a b in
  strip (if cmp_eval (bp_uxor_len p) (zlen b) (zlen a) then a1 ++ skipn (length a) b else a1).

(** `&a & &b`: clone the shorter; `|`/`^` (forward_ref_ref_binop_commutative): clone the longer *)
Definition uand (p : bits_params) (a b : list Z) : list Z :=
  if cmp_eval (bp_uand_len p) (zlen a) (zlen b) then uand_assign a b else uand_assign b a.
Definition uor (p : bits_params) (a b : list Z) : list Z :=
  if zlen a >=? zlen b then uor_assign p a b else uor_assign p b a.
Definition uxor (p : bits_params) (a b : list Z) : list Z :=
  if zlen a >=? zlen b then uxor_assign p a b else uxor_assign p b a.

(** * Two's complement on the fly *)
Definition dnot (d : Z) : Z := B - 1 - d.              (* `!a` on u64 *)
(** `negate_carry(a, &mut acc)`; acc < 2^64 always, so the u128 `+=` cannot overflow *)
Definition negate_carry (a acc : Z) : Z * Z :=
  let s := acc + dnot a in (s mod B, s / B).
Definition ncf (neg : bool) (a acc : Z) : Z * Z :=
  if neg then negate_carry a acc else (a, acc).

(** the zip loop: [na]/[nb] — the body takes `negate_carry(ai, carry_a)` / `(bi, carry_b)`
    instead of the raw digit; [nr] — the combined digit is stored through
    `negate_carry(.., &mut carry_res)`.  Returns the rewritten prefix, the untouched rest of
    [a], the unread rest of [b] and the three carries. *)
Fixpoint zip_loop (f : Z -> Z -> Z) (na nb nr : bool) (ca cb cr : Z) (a b : list Z)
  : list Z * list Z * list Z * (Z * Z * Z) :=
  match a, b with
  | x :: a', y :: b' =>
      let '(tx, ca') := ncf na x ca in
      let '(ty, cb') := ncf nb y cb in
      let '(o, cr') := ncf nr (f tx ty) cr in
      let '(os, ra, rb, cs) := zip_loop f na nb nr ca' cb' cr' a' b' in
      (o :: os, ra, rb, cs)
  | _, _ => ([], a, b, (ca, cb, cr))
  end.

(** loop over the remaining digits of the longer operand: [pre] — `negate_carry(d,&mut c1)`;
    [flip] — `^ !0` (the exhausted negative operand reads as all ones); [post] — stored through
    `negate_carry(.., &mut c2)` *)
Fixpoint tail_loop (pre flip post : bool) (c1 c2 : Z) (l : list Z) : list Z * (Z * Z) :=
  match l with
  | [] => ([], (c1, c2))
  | x :: l' =>
      let '(t, c1') := ncf pre x c1 in
      let t' := if flip then Z.lxor t (B - 1) else t in
      let '(o, c2') := ncf post t' c2 in
      let '(os, cs) := tail_loop pre flip post c1' c2' l' in
      (o :: os, cs)
  end.

Definition nat_ltb (a b : nat) : bool := Nat.ltb a b.
Definition push1 (c : Z) (l : list Z) : list Z := if negb (c =? 0) then l ++ [1] else l.

(** answer is pos, has length of a *)
Definition bitand_pos_neg (a b : list Z) : outcome (list Z) :=
  let '(o, ra, _, (_, cb, _)) := zip_loop Z.land false true false 0 1 0 a b in
  do _ <- assert_ (nat_ltb (length a) (length b) || (cb =? 0)) (Internal 701);
  Ret (o ++ ra).

(** answer is pos, has length of b *)
Definition bitand_neg_pos (a b : list Z) : outcome (list Z) :=
  let '(o, ra, rb, (ca, _, _)) := zip_loop Z.land true false false 1 0 0 a b in
  do _ <- assert_ (nat_ltb (length b) (length a) || (ca =? 0)) (Internal 702);
  match Nat.compare (length a) (length b) with
  | Gt => Ret (firstn (length b) (o ++ ra))
  | Eq => Ret (o ++ ra)
  | Lt => Ret (o ++ ra ++ rb)
  end.

(** answer is neg, has length of longest with a possible carry *)
Definition bitand_neg_neg (a b : list Z) : outcome (list Z) :=
  let '(o, ra, rb, (ca, cb, cand)) := zip_loop Z.land true true true 1 1 1 a b in
  do _ <- assert_ (nat_ltb (length b) (length a) || (ca =? 0)) (Internal 703);
  do _ <- assert_ (nat_ltb (length a) (length b) || (cb =? 0)) (Internal 704);
  do r <-
    match Nat.compare (length a) (length b) with
    | Gt => let '(t, (ca', cand')) := tail_loop true false true ca cand ra in
            do _ <- assert_ (ca' =? 0) (Internal 705); Ret (o ++ t, cand')
    | Eq => Ret (o ++ ra, cand)
    | Lt => let '(t, (cb', cand')) := tail_loop true false true cb cand rb in
            do _ <- assert_ (cb' =? 0) (Internal 706); Ret (o ++ ra ++ t, cand')
    end;
  let '(d, cand') := r in
  Ret (push1 cand' d).

(** answer is neg, has length of b *)
Definition bitor_pos_neg (a b : list Z) : outcome (list Z) :=
  let '(o, ra, rb, (_, cb, cor)) := zip_loop Z.lor false true true 0 1 1 a b in
  do _ <- assert_ (nat_ltb (length a) (length b) || (cb =? 0)) (Internal 711);
  do r <-
    match Nat.compare (length a) (length b) with
    | Gt => Ret (firstn (length b) (o ++ ra), cor)
    | Eq => Ret (o ++ ra, cor)
    | Lt => let '(t, (cb', cor')) := tail_loop true false true cb cor rb in
            do _ <- assert_ (cb' =? 0) (Internal 712); Ret (o ++ ra ++ t, cor')
    end;
  let '(d, cor') := r in
  do _ <- assert_ (cor' =? 0) (Internal 713);
  Ret d.

(** answer is neg, has length of a *)
Definition bitor_neg_pos (a b : list Z) : outcome (list Z) :=
  let '(o, ra, _, (ca, _, cor)) := zip_loop Z.lor true false true 1 0 1 a b in
  do _ <- assert_ (nat_ltb (length b) (length a) || (ca =? 0)) (Internal 714);
  do r <-
    (if nat_ltb (length b) (length a) then
       let '(t, (ca', cor')) := tail_loop true false true ca cor ra in
       do _ <- assert_ (ca' =? 0) (Internal 715); Ret (o ++ t, cor')
     else Ret (o ++ ra, cor));
  let '(d, cor') := r in
  do _ <- assert_ (cor' =? 0) (Internal 716);
  Ret d.

(** answer is neg, has length of shortest *)
Definition bitor_neg_neg (a b : list Z) : outcome (list Z) :=
  let '(o, ra, _, (ca, cb, cor)) := zip_loop Z.lor true true true 1 1 1 a b in
  do _ <- assert_ (nat_ltb (length b) (length a) || (ca =? 0)) (Internal 717);
  do _ <- assert_ (nat_ltb (length a) (length b) || (cb =? 0)) (Internal 718);
  let d := if nat_ltb (length b) (length a) then firstn (length b) (o ++ ra) else o ++ ra in
  do _ <- assert_ (cor =? 0) (Internal 719);
  Ret d.

(** answer is neg, has length of longest with a possible carry *)
Definition bitxor_pos_neg (a b : list Z) : outcome (list Z) :=
  let '(o, ra, rb, (_, cb, cx)) := zip_loop Z.lxor false true true 0 1 1 a b in
  do _ <- assert_ (nat_ltb (length a) (length b) || (cb =? 0)) (Internal 721);
  do r <-
    match Nat.compare (length a) (length b) with
    | Gt => let '(t, (_, cx')) := tail_loop false true true 0 cx ra in Ret (o ++ t, cx')
    | Eq => Ret (o ++ ra, cx)
    | Lt => let '(t, (cb', cx')) := tail_loop true false true cb cx rb in
            do _ <- assert_ (cb' =? 0) (Internal 722); Ret (o ++ ra ++ t, cx')
    end;
  let '(d, cx') := r in
  Ret (push1 cx' d).

Definition bitxor_neg_pos (a b : list Z) : outcome (list Z) :=
  let '(o, ra, rb, (ca, _, cx)) := zip_loop Z.lxor true false true 1 0 1 a b in
  do _ <- assert_ (nat_ltb (length b) (length a) || (ca =? 0)) (Internal 723);
  do r <-
    match Nat.compare (length a) (length b) with
    | Gt => let '(t, (ca', cx')) := tail_loop true false true ca cx ra in
            do _ <- assert_ (ca' =? 0) (Internal 724); Ret (o ++ t, cx')
    | Eq => Ret (o ++ ra, cx)
    | Lt => let '(t, (_, cx')) := tail_loop false true true 0 cx rb in Ret (o ++ ra ++ t, cx')
    end;
  let '(d, cx') := r in
  Ret (push1 cx' d).

(** answer is pos, has length of longest *)
Definition bitxor_neg_neg (a b : list Z) : outcome (list Z) :=
  let '(o, ra, rb, (ca, cb, _)) := zip_loop Z.lxor true true false 1 1 0 a b in
  do _ <- assert_ (nat_ltb (length b) (length a) || (ca =? 0)) (Internal 725);
  do _ <- assert_ (nat_ltb (length a) (length b) || (cb =? 0)) (Internal 726);
  match Nat.compare (length a) (length b) with
  | Gt => let '(t, (ca', _)) := tail_loop true true false ca 0 ra in
          do _ <- assert_ (ca' =? 0) (Internal 727); Ret (o ++ t)
  | Eq => Ret (o ++ ra)
  | Lt => let '(t, (cb', _)) := tail_loop true true false cb 0 rb in
          do _ <- assert_ (cb' =? 0) (Internal 728); Ret (o ++ ra ++ t)
  end.

(** * BigInt & | ^ : sign dispatch and sign fixing *)
(** `IntDigits::normalize for BigInt` *)
Definition inormalize (s : sign) (d : list Z) : bigint :=
  let m := strip d in mkint (if is_nil m then NoSign else s) m.
(** `BigInt::from(BigUint)` *)
Definition of_biguint (d : list Z) : bigint :=
  if is_nil d then mkint NoSign [] else mkint Plus d.

Definition iand_assign (x y : bigint) : outcome bigint :=
  match sg x, sg y with
  | NoSign, _ => Ret x
  | _, NoSign => Ret (mkint NoSign [])
  | Plus, Plus => let d := uand_assign (mag x) (mag y) in
                  Ret (mkint (if is_nil d then NoSign else Plus) d)
  | Plus, Minus => do d <- bitand_pos_neg (mag x) (mag y); Ret (inormalize Plus d)
  | Minus, Plus => do d <- bitand_neg_pos (mag x) (mag y); Ret (inormalize Plus d)
  | Minus, Minus => do d <- bitand_neg_neg (mag x) (mag y); Ret (inormalize Minus d)
  end.
Definition iand (p : bits_params) (x y : bigint) : outcome bigint :=
  match sg x, sg y with
  | NoSign, _ | _, NoSign => Ret (mkint NoSign [])
  | Plus, Plus => Ret (of_biguint (uand p (mag x) (mag y)))
  | Plus, Minus => iand_assign x y
  | Minus, Plus => iand_assign y x
  | Minus, Minus => if cmp_eval (bp_iand_len p) (zlen (mag x)) (zlen (mag y))
                    then iand_assign x y else iand_assign y x
  end.

Definition ior_assign (p : bits_params) (x y : bigint) : outcome bigint :=
  match sg x, sg y with
  | _, NoSign => Ret x
  | NoSign, _ => Ret y
  | Plus, Plus => Ret (mkint Plus (uor_assign p (mag x) (mag y)))
  | Plus, Minus => do d <- bitor_pos_neg (mag x) (mag y); Ret (inormalize Minus d)
  | Minus, Plus => do d <- bitor_neg_pos (mag x) (mag y); Ret (inormalize Minus d)
  | Minus, Minus => do d <- bitor_neg_neg (mag x) (mag y); Ret (inormalize Minus d)
  end.
Definition ior (p : bits_params) (x y : bigint) : outcome bigint :=
  match sg x, sg y with
  | NoSign, _ => Ret y
  | _, NoSign => Ret x
  | Plus, Plus => Ret (of_biguint (uor p (mag x) (mag y)))
  | Plus, Minus => ior_assign p y x
  | Minus, Plus => ior_assign p x y
  | Minus, Minus => if cmp_eval (bp_ior_len p) (zlen (mag x)) (zlen (mag y))
                    then ior_assign p x y else ior_assign p y x
  end.

Definition ixor_assign (p : bits_params) (x y : bigint) : outcome bigint :=
  match sg x, sg y with
  | _, NoSign => Ret x
  | NoSign, _ => Ret y
  | Plus, Plus => let d := uxor_assign p (mag x) (mag y) in
                  Ret (mkint (if is_nil d then NoSign else Plus) d)
  | Plus, Minus => do d <- bitxor_pos_neg (mag x) (mag y); Ret (inormalize Minus d)
  | Minus, Plus => do d <- bitxor_neg_pos (mag x) (mag y); Ret (inormalize Minus d)
  | Minus, Minus => do d <- bitxor_neg_neg (mag x) (mag y); Ret (inormalize Plus d)
  end.
(** forward_ref_ref_binop_commutative: clone the longer *)
Definition ixor (p : bits_params) (x y : bigint) : outcome bigint :=
  if zlen (mag x) >=? zlen (mag y) then ixor_assign p x y else ixor_assign p y x.

(** * Not *)
(** `impl Not for BigInt` (by value) *)
Definition inot (ap : addsub_params) (x : bigint) : outcome bigint :=
  match sg x with
  | NoSign | Plus => do d <- uadd_digit ap (mag x) 1; Ret (mkint Minus d)
  | Minus => do d <- usub_digit ap (mag x) 1; Ret (mkint (if is_nil d then NoSign else Plus) d)
  end.
(** `impl Not for &BigInt` *)
Definition inot_ref (ap : addsub_params) (x : bigint) : outcome bigint :=
  match sg x with
  | NoSign => Ret (mkint Minus [1])
  | Plus => do d <- uadd_digit ap (mag x) 1; Ret (ineg (of_biguint d))
  | Minus => do d <- usub_digit ap (mag x) 1; Ret (of_biguint d)
  end.

(** * Shift front ends.  [s] is the value of the primitive shift amount (any of the twelve
    types; the code depends on the type only through the value's range). *)
Definition biguint_shl (n : list Z) (s : Z) : outcome (list Z) :=
  if s <? 0 then Panic NegShift
  else if is_nil n then Ret n
  else
    let q := s / 64 in
    if usize_max <? q then Panic MemOverflow            (* `.to_usize().expect("capacity overflow")` *)
    else
      let r := s mod 64 in
      (* biguint_shl2: `Vec::with_capacity(digits.saturating_add(n.data.len() + 1))` *)
      if (0 <? q) && (alloc_limit <=? Z.min usize_max (q + (zlen n + 1))) then Panic MemOverflow
      else Ret (shl2 n q r).
Definition biguint_shr (n : list Z) (s : Z) : outcome (list Z) :=
  if s <? 0 then Panic NegShift
  else if is_nil n then Ret n
  else
    let q := s / 64 in
    let digits := if usize_max <? q then usize_max else q in   (* `.to_usize().unwrap_or(usize::MAX)` *)
    Ret (shr2 n digits (s mod 64)).

(** digit intrinsics *)
Fixpoint ptz (p : positive) : Z :=
  match p with xO q => 1 + ptz q | _ => 0 end.
Fixpoint ppop (p : positive) : Z :=
  match p with xO q => ppop q | xI q => 1 + ppop q | xH => 1 end.
Definition tz64 (d : Z) : Z := match d with Zpos p => ptz p | _ => 64 end.      (* u64::trailing_zeros *)
Definition t1_64 (d : Z) : Z := tz64 (dnot d).                                   (* u64::trailing_ones *)
Definition lz64 (d : Z) : Z := if d <=? 0 then 64 else 63 - Z.log2 d.            (* u64::leading_zeros *)
Definition pop64 (d : Z) : Z := match d with Zpos p => ppop p | _ => 0 end.      (* u64::count_ones *)

(** * Bit queries on BigUint *)
Definition ubits (a : list Z) : Z :=
  match rev a with
  | [] => 0
  | d :: _ => zlen a * 64 - lz64 d
  end.

(** `self.data.iter().position(|&digit| digit != 0)` and the digit found *)
Fixpoint position (f : Z -> bool) (i : Z) (l : list Z) : option (Z * Z) :=
  match l with
  | [] => None
  | d :: r => if f d then Some (i, d) else position f (i + 1) r
  end.
Definition utrailing_zeros (a : list Z) : option Z :=
  match position (fun d => negb (d =? 0)) 0 a with
  | None => None
  | Some (i, d) => Some (i * 64 + tz64 d)
  end.
Definition utrailing_ones (a : list Z) : Z :=
  match position (fun d => negb (dnot d =? 0)) 0 a with
  | Some (i, d) => i * 64 + t1_64 d
  | None => zlen a * 64
  end.
Definition ucount_ones (a : list Z) : Z := fold_right (fun d acc => pop64 d + acc) 0 a.

(** `self.data.get(i)` with the index guarded (no huge Peano numbers at run time) *)
Definition get (a : list Z) (i : Z) : option Z :=
  if (0 <=? i) && (i <? zlen a) then nth_error a (Z.to_nat i) else None.
Definition ubit (a : list Z) (bit : Z) : bool :=
  match get a (bit / 64) with
  | Some digit => negb (Z.land digit (2 ^ (bit mod 64)) =? 0)
  | None => false
  end.

(** `digits[i] = f(digits[i])`; out of range = index panic *)
Definition upd (a : list Z) (i : Z) (f : Z -> Z) (site : Z) : outcome (list Z) :=
  match get a i with
  | Some d => Ret (firstn (Z.to_nat i) a ++ f d :: skipn (S (Z.to_nat i)) a)
  | None => Panic (Internal site)
  end.

Definition uset_bit (p : bits_params) (a : list Z) (bit : Z) (value : bool) : outcome (list Z) :=
  let digit_index := bit / 64 in          (* u64 -> usize never fails on this target *)
  let bit_mask := 2 ^ (bit mod 64) in
  if value then
    let a1 :=
      (if cmp_eval (bp_set_ge p) digit_index (zlen a) then
         (* `digit_index.saturating_add(1)`; bit < 2^64 so new_len <= 2^58 + 1: below the
            capacity-overflow limit, the resize is assumed to succeed *)
         let new_len := Z.min usize_max (digit_index + 1) in
         a ++ zeros (Z.to_nat (new_len - zlen a))
       else a) in
    upd a1 digit_index (fun d => Z.lor d bit_mask) 731
  else if cmp_eval (bp_set_lt p) digit_index (zlen a) then
    do a1 <- upd a digit_index (fun d => Z.land d (dnot bit_mask)) 732;
    Ret (strip a1)
  else Ret a.

(** * BigInt shifts *)
Definition ishl (x : bigint) (s : Z) : outcome bigint :=
  do d <- biguint_shl (mag x) s; Ret (from_biguint (sg x) d).
Definition ishl_assign (x : bigint) (s : Z) : outcome bigint :=
  do d <- biguint_shl (mag x) s; Ret (mkint (sg x) d).

Definition shr_round_down (p : bits_params) (x : bigint) (s : Z) : outcome bool :=
  match sg x with
  | Minus =>
      match utrailing_zeros (mag x) with
      | None => Panic (Internal 741)          (* `.expect("negative values are non-zero")` *)
      | Some zeros =>
          Ret (cmp_eval (bp_round_pos p) s 0 &&
               (if s <=? B - 1 (* shift.to_u64() *) then cmp_eval (bp_round p) zeros s else true))
      end
  | _ => Ret false
  end.
Definition ishr (p : bits_params) (ap : addsub_params) (x : bigint) (s : Z) : outcome bigint :=
  do rd <- shr_round_down p x s;
  do d <- biguint_shr (mag x) s;
  do d' <- (if rd then uadd_digit ap d 1 else Ret d);
  Ret (from_biguint (sg x) d').
Definition ishr_assign (p : bits_params) (ap : addsub_params) (x : bigint) (s : Z) : outcome bigint :=
  do rd <- shr_round_down p x s;
  do d <- biguint_shr (mag x) s;
  if rd then do d' <- uadd_digit ap d 1; Ret (mkint (sg x) d')
  else Ret (mkint (if is_nil d then NoSign else sg x) d).

(** * Bit queries on BigInt *)
Definition ibits (x : bigint) : Z := ubits (mag x).
Definition itrailing_zeros (x : bigint) : option Z := utrailing_zeros (mag x).
Definition ibit (p : bits_params) (x : bigint) (bit : Z) : outcome bool :=
  match sg x with
  | Minus =>
      if cmp_eval (bp_ibit_hi p) bit (64 * zlen (mag x)) then Ret true
      else match utrailing_zeros (mag x) with
           | None => Panic (Internal 742)
           | Some tz =>
               Ret (match bit ?= tz with
                    | Lt => false | Eq => true | Gt => negb (ubit (mag x) bit)
                    end)
           end
  | _ => Ret (ubit (mag x) bit)
  end.

(** the carry walk of `set_negative_bit` (clearing the lowest set bit) *)
Fixpoint snb_walk (cin cout : Z) (l : list Z) : list Z * (Z * Z) :=
  match l with
  | [] => ([], (cin, cout))
  | d :: r =>
      if (cin =? 0) && (cout =? 0) then (l, (cin, cout))
      else
        let '(t, cin') := negate_carry d cin in
        let '(o, cout') := negate_carry t cout in
        let '(os, cs) := snb_walk cin' cout' r in
        (o :: os, cs)
  end.

Definition set_negative_bit (p : bits_params) (data : list Z) (bit : Z) (value : bool)
  : outcome (list Z) :=
  if cmp_eval (bp_snb_hi p) bit (64 * zlen data) then
    if negb value then uset_bit p data bit true else Ret data
  else
    match utrailing_zeros data with
    | None => Panic (Internal 751)
    | Some tz =>
        if cmp_eval (bp_snb_gt p) bit tz then uset_bit p data bit (negb value)
        else if cmp_eval (bp_snb_eq p) bit tz && negb value then
          let bit_index := bit / 64 in
          let bit_mask := 2 ^ (bit mod 64) in
          match skipn (Z.to_nat bit_index) data with
          | [] => Panic (Internal 752)                       (* `digit_iter.next().unwrap()` *)
          | digit :: rest =>
              let '(twos_in, cin) := negate_carry digit 1 in
              let twos_out := Z.land twos_in (dnot bit_mask) in
              let '(d', cout) := negate_carry twos_out 1 in
              let '(rest', (cin', cout')) := snb_walk cin cout rest in
              let data' := firstn (Z.to_nat bit_index) data ++ d' :: rest' in
              if negb (cout' =? 0) then
                do _ <- assert_ (cin' =? 0) (Internal 753);
                Ret (data' ++ [1])
              else Ret data'
          end
        else if cmp_eval (bp_snb_lt p) bit tz && value then
          let index_lo := bit / 64 in
          let index_hi := tz / 64 in
          let mask_lo := ((B - 1) * 2 ^ (bit mod 64)) mod B in
          let mask_hi := (B - 1) / 2 ^ (64 - 1 - tz mod 64) in
          if index_lo =? index_hi then
            upd data index_lo (fun d => Z.lxor d (Z.land mask_lo mask_hi)) 754
          else
            do d1 <- upd data index_lo (fun _ => mask_lo) 755;
            do _ <- assert_ (index_lo + 1 <=? index_hi) (Internal 756);   (* slice range *)
            let lo := Z.to_nat (index_lo + 1) in
            let hi := Z.to_nat index_hi in
            let d2 := firstn lo d1 ++ map (fun _ => B - 1) (firstn (hi - lo)%nat (skipn lo d1))
                      ++ skipn hi d1 in
            upd d2 index_hi (fun d => Z.lxor d mask_hi) 757
        else Ret data
    end.

Definition iset_bit (p : bits_params) (x : bigint) (bit : Z) (value : bool) : outcome bigint :=
  do r <-
    match sg x with
    | Plus => do d <- uset_bit p (mag x) bit value; Ret (Plus, d)
    | Minus => do d <- set_negative_bit p (mag x) bit value; Ret (Minus, d)
    | NoSign => if value then do d <- uset_bit p (mag x) bit true; Ret (Plus, d)
                else Ret (NoSign, mag x)
    end;
  let '(s, d) := r in
  Ret (inormalize s d).
