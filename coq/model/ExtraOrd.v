(* ExtraOrd.v — public items the API audit (docs/API_COVERAGE.md) found without a model function:
   the comparison-operator layer on top of `Ord::cmp`, BigInt's inherent `checked_add/checked_sub`,
   and the derives of `enum Sign`.  Definitions only; everything is defined by CALLING the owning
   area's model (AddSub.ucmp, AddSub.iadd/isub, Sign.icmp, Sign.sign_cmp).

   src/biguint.rs / src/bigint.rs:
     impl PartialOrd for BigUint { fn partial_cmp(&self, o) -> Option<Ordering> { Some(self.cmp(o)) } }
     impl PartialOrd for BigInt  { …the same… }
   `<  <=  >  >=` are the provided methods of core::cmp::PartialOrd (library/core/src/cmp.rs):
     lt = matches!(partial_cmp, Some(Less))          le = matches!(.., Some(Less | Equal))
     gt = matches!(partial_cmp, Some(Greater))       ge = matches!(.., Some(Greater | Equal))
   `!=` is the provided `PartialEq::ne` = `!self.eq(other)` (modelled in ExtraHist.v, next to Hist.ueq).
   src/bigint.rs:  pub fn checked_add(&self, v) -> Option<BigInt> { Some(self + v) }   (checked_sub alike)
   #[derive(PartialEq, PartialOrd, Eq, Ord, Copy, Clone, Debug, Hash)] pub enum Sign { Minus, NoSign, Plus } *)
From BigNum Require Import Base AddSub Sign.
Open Scope Z_scope.

(** the four provided comparison methods, as functions of the `partial_cmp` result *)
Definition ord_lt (o : option comparison) : bool := match o with Some Lt => true | _ => false end.
Definition ord_le (o : option comparison) : bool := match o with Some Lt | Some Eq => true | _ => false end.
Definition ord_gt (o : option comparison) : bool := match o with Some Gt => true | _ => false end.
Definition ord_ge (o : option comparison) : bool := match o with Some Gt | Some Eq => true | _ => false end.

Definition upartial_cmp (a b : list Z) : outcome (option comparison) := do c <- ucmp a b; Ret (Some c).
Definition ipartial_cmp (sp : sign_params) (x y : bigint) : outcome (option comparison) := do c <- icmp sp x y; Ret (Some c).

(** (partial_cmp, lt, le, gt, ge) of one pair — what the ops `ord.u` / `ord.i` observe *)
Record ord_obs := mkOrd { oo_pcmp : option comparison; oo_lt : bool; oo_le : bool; oo_gt : bool; oo_ge : bool }.
Definition ord_of (o : option comparison) : ord_obs := mkOrd o (ord_lt o) (ord_le o) (ord_gt o) (ord_ge o).
Definition uord (a b : list Z) : outcome ord_obs := do o <- upartial_cmp a b; Ret (ord_of o).
Definition iord (sp : sign_params) (x y : bigint) : outcome ord_obs := do o <- ipartial_cmp sp x y; Ret (ord_of o).

(** BigInt's inherent checked_add / checked_sub (the trait forms CheckedAdd / CheckedSub are rows of
    the C10 table; `x.checked_add(&y)` on a BigInt resolves to these inherent methods) *)
Definition ichecked_add (p : addsub_params) (x y : bigint) : outcome (option bigint) :=
  do r <- iadd p x y; Ret (Some r).
Definition ichecked_sub (p : addsub_params) (x y : bigint) : outcome (option bigint) :=
  do r <- isub p x y; Ret (Some r).

(** derives of `Sign`: `==` compares discriminants, `cmp`/`partial_cmp` order them
    Minus < NoSign < Plus (= Sign.sign_cmp), `Debug` prints the variant name. *)
Definition sign_eq (a b : sign) : bool := sign_eqb a b.
Definition sign_partial_cmp (a b : sign) : option comparison := Some (sign_cmp a b).
Definition sign_debug (s : sign) : list Z :=
  match s with
  | Minus => [77; 105; 110; 117; 115]            (* "Minus" *)
  | NoSign => [78; 111; 83; 105; 103; 110]       (* "NoSign" *)
  | Plus => [80; 108; 117; 115]                  (* "Plus" *)
  end.
