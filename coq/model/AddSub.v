(* AddSub.v — executable model of src/biguint/{addition,subtraction}.rs and the sign
   dispatch of src/bigint/{addition,subtraction}.rs.  Definitions only. *)
From BigNum Require Import Base X86.
Open Scope Z_scope.

(** Source-extracted parameters of this area. *)
Record addsub_params := {
  ap_blk : Z;                   (* `size /= 5` *)
  ap_add_prog : list instr;     (* asm! template of schoolbook_add_assign_x86_64 *)
  ap_sub_prog : list instr;     (* asm! template of schoolbook_sub_assign_x86_64 *)
  ap_add_len_cmp : cmpop;       (* AddAssign<&BigUint>: `self_len < other.data.len()` *)
  ap_callsites : bool;          (* both asm call sites pass (a_lo, b-prefix, common length), cf. tools/extractors/addsub.py *)
}.

(** _addcarry_u64 / _subborrow_u64 *)
Definition adc (c a b : Z) : Z * Z := let s := a + b + c in (s mod B, s / B).
Definition sbb (c a b : Z) : Z * Z := let s := a - b - c in (s mod B, if s <? 0 then 1 else 0).

(** zip loops over equal-length prefixes: returns updated [a]-prefix and carry. *)
Fixpoint adc_zip (c : Z) (a b : list Z) : list Z * Z :=
  match a, b with
  | x :: a', y :: b' =>
      let '(o, c1) := adc c x y in
      let '(r, c2) := adc_zip c1 a' b' in (o :: r, c2)
  | _, _ => (a, c)
  end.
Fixpoint sbb_zip (c : Z) (a b : list Z) : list Z * Z :=
  match a, b with
  | x :: a', y :: b' =>
      let '(o, c1) := sbb c x y in
      let '(r, c2) := sbb_zip c1 a' b' in (o :: r, c2)
  | _, _ => (a, c)
  end.

(** `for a in a_hi { carry = adc(carry, *a, 0, a); if carry == 0 { break } }` *)
Fixpoint prop_add (c : Z) (l : list Z) : list Z * Z :=
  match l with
  | [] => ([], c)
  | x :: r =>
      let '(o, c1) := adc c x 0 in
      if c1 =? 0 then (o :: r, 0)
      else let '(r', c2) := prop_add c1 r in (o :: r', c2)
  end.
Fixpoint prop_sub (c : Z) (l : list Z) : list Z * Z :=
  match l with
  | [] => ([], c)
  | x :: r =>
      let '(o, c1) := sbb c x 0 in
      if c1 =? 0 then (o :: r, 0)
      else let '(r', c2) := prop_sub c1 r in (o :: r', c2)
  end.

(** The asm loops, as list functions: [size / blk] iterations of 5 lanes.
    Returns (a', carry, done); an access beyond [size] is [Internal 150]. *)
Definition schoolbook (zipf : Z -> list Z -> list Z -> list Z * Z) (blk : Z)
           (a b : list Z) (size : Z) : outcome (list Z * Z * Z) :=
  let k := size / blk in
  if k =? 0 then Ret (a, 0, 0)
  else
    let n := 5 * k in
    do _ <- assert_ ((n <=? size) && (size <=? Z.of_nat (length a)) && (size <=? Z.of_nat (length b)))
                    (Internal 150);
    let nn := Z.to_nat n in
    let '(lo, c) := zipf 0 (firstn nn a) (firstn nn b) in
    Ret (lo ++ skipn nn a, c, n).

(** `__add2(a, b)`: a += b, returning the carry.  Requires |a| >= |b| (debug_assert). *)
Definition add2c (p : addsub_params) (a b : list Z) : outcome (list Z * Z) :=
  do _ <- assert_ (length b <=? length a)%nat (Internal 101);
  let n := length b in
  let a_lo := firstn n a in
  let a_hi := skipn n a in
  do r <- schoolbook adc_zip (ap_blk p) a_lo b (Z.of_nat n);
  let '(a_lo1, c, done) := r in
  let d := Z.to_nat done in
  let '(tail, c2) := adc_zip c (skipn d a_lo1) (skipn d b) in
  let a_lo2 := firstn d a_lo1 ++ tail in
  let '(hi, c3) := if c2 =? 0 then (a_hi, 0) else prop_add c2 a_hi in
  Ret (a_lo2 ++ hi, c3).

(** `add2`: debug_assert!(carry == 0) *)
Definition add2 (p : addsub_params) (a b : list Z) : outcome (list Z) :=
  do r <- add2c p a b;
  let '(a', c) := r in
  do _ <- assert_ (c =? 0) (Internal 102);
  Ret a'.

(** `AddAssign<&BigUint> for BigUint` *)
Definition uadd (p : addsub_params) (a b : list Z) : outcome (list Z) :=
  let la := length a in
  do r <-
    (if cmp_eval (ap_add_len_cmp p) (Z.of_nat la) (Z.of_nat (length b)) then
       do r1 <- add2c p a (firstn la b);
       let '(a1, lo_carry) := r1 in
       let a2 := a1 ++ skipn la b in
       do r2 <- add2c p (skipn la a2) [lo_carry];
       let '(hi, c) := r2 in
       Ret (firstn la a2 ++ hi, c)
     else add2c p a b);
  let '(a', carry) := r in
  Ret (if carry =? 0 then a' else a' ++ [carry]).

(** `sub2(a, b)`: a -= b; panics if b > a. *)
Definition all_zero (l : list Z) : bool := forallb (fun x => x =? 0) l.
Definition sub2 (p : addsub_params) (a b : list Z) : outcome (list Z) :=
  let len := Nat.min (length a) (length b) in
  let a_lo := firstn len a in let a_hi := skipn len a in
  let b_lo := firstn len b in let b_hi := skipn len b in
  do r <- schoolbook sbb_zip (ap_blk p) a_lo b_lo (Z.of_nat len);
  let '(a_lo1, c, done) := r in
  let d := Z.to_nat done in
  let '(tail, c2) := sbb_zip c (skipn d a_lo1) (skipn d b_lo) in
  let a_lo2 := firstn d a_lo1 ++ tail in
  let '(hi, c3) := if c2 =? 0 then (a_hi, 0) else prop_sub c2 a_hi in
  do _ <- assert_ ((c3 =? 0) && all_zero b_hi) SubUnderflow;
  Ret (a_lo2 ++ hi).

(** `__sub2rev(a, b)`: b = a - b, returning the borrow; equal lengths (debug_assert). *)
Fixpoint sbb_zip_rev (c : Z) (a b : list Z) : list Z * Z :=
  match a, b with
  | x :: a', y :: b' =>
      let '(o, c1) := sbb c x y in
      let '(r, c2) := sbb_zip_rev c1 a' b' in (o :: r, c2)
  | _, _ => (b, c)
  end.
Definition sub2rev_raw (a b : list Z) : outcome (list Z * Z) :=
  do _ <- assert_ (length b =? length a)%nat (Internal 103);
  Ret (sbb_zip_rev 0 a b).

(** `sub2rev(a, b)`: b = a - b; panics if b > a. *)
Definition sub2rev (a b : list Z) : outcome (list Z) :=
  do _ <- assert_ (length a <=? length b)%nat (Internal 104);
  let len := Nat.min (length a) (length b) in
  let a_lo := firstn len a in let a_hi := skipn len a in
  let b_lo := firstn len b in let b_hi := skipn len b in
  do r <- sub2rev_raw a_lo b_lo;
  let '(b_lo1, borrow) := r in
  do _ <- assert_ (match a_hi with [] => true | _ => false end) (Internal 105);
  do _ <- assert_ ((borrow =? 0) && all_zero b_hi) SubUnderflow;
  Ret (b_lo1 ++ b_hi).

(** `SubAssign<&BigUint> for BigUint` (and `BigUint - &BigUint`). *)
Definition usub (p : addsub_params) (a b : list Z) : outcome (list Z) :=
  do r <- sub2 p a b; Ret (strip r).

(** `Sub<BigUint> for &BigUint`: reuses the right operand's buffer. *)
Definition usub_ref_val (p : addsub_params) (a b : list Z) : outcome (list Z) :=
  let lb := length b in
  if (lb <? length a)%nat then
    do r <- sub2rev_raw (firstn lb a) b;
    let '(b1, lo_borrow) := r in
    let b2 := b1 ++ skipn lb a in
    do b3 <- (if lo_borrow =? 0 then Ret b2
              else do hi <- sub2 p (skipn lb b2) [1]; Ret (firstn lb b2 ++ hi));
    Ret (strip b3)
  else
    do r <- sub2rev a b; Ret (strip r).

(** `cmp_slice` (both arguments normalized: debug_assert). *)
Definition last_nonzero (l : list Z) : bool :=
  match rev l with [] => true | d :: _ => negb (d =? 0) end.
Fixpoint cmp_rev (a b : list Z) : comparison :=  (* most significant first, equal length *)
  match a, b with
  | x :: a', y :: b' => match x ?= y with Eq => cmp_rev a' b' | c => c end
  | [], [] => Eq
  | [], _ => Lt
  | _, [] => Gt
  end.
Definition cmp_slice (a b : list Z) : outcome comparison :=
  do _ <- assert_ (last_nonzero a && last_nonzero b) (Internal 106);
  Ret (match Nat.compare (length a) (length b) with
       | Eq => cmp_rev (rev a) (rev b)
       | c => c
       end).

(** `CheckedSub`, `CheckedAdd` *)
Definition uchecked_sub (p : addsub_params) (a b : list Z) : outcome (option (list Z)) :=
  do c <- cmp_slice a b;
  match c with
  | Lt => Ret None
  | Eq => Ret (Some [])
  | Gt => do r <- usub p a b; Ret (Some r)
  end.
Definition uchecked_add (p : addsub_params) (a b : list Z) : outcome (option (list Z)) :=
  do r <- uadd p a b; Ret (Some r).

(** Scalar leaves (64-bit digit arms of cfg_digit!). [s] is the scalar value. *)
Definition uadd_digit (p : addsub_params) (a : list Z) (s : Z) : outcome (list Z) :=
  if s =? 0 then Ret a
  else
    let a0 := match a with [] => [0] | _ => a end in
    do r <- add2c p a0 [s];
    let '(a', carry) := r in
    Ret (if carry =? 0 then a' else a' ++ [carry]).
(** AddAssign<u128>: `if other <= u64::MAX { *self += other as u64 } else { … }` *)
Definition uadd_u128 (p : addsub_params) (a : list Z) (s : Z) : outcome (list Z) :=
  if s <? B then uadd_digit p a s
  else
    let lo := s mod B in let hi := s / B in
    let a0 := a ++ zeros (2 - length a) in
    do r <- add2c p a0 [lo; hi];
    let '(a', carry) := r in
    Ret (if carry =? 0 then a' else a' ++ [carry]).
Definition usub_digit (p : addsub_params) (a : list Z) (s : Z) : outcome (list Z) :=
  do r <- sub2 p a [s]; Ret (strip r).
Definition usub_u128 (p : addsub_params) (a : list Z) (s : Z) : outcome (list Z) :=
  do r <- sub2 p a [s mod B; s / B]; Ret (strip r).
(** `Sub<BigUint> for u32/u64` and `for u128` *)
Definition digit_sub_u (s : Z) (b : list Z) : outcome (list Z) :=
  match b with
  | [] => Ret (strip [s])
  | _ => do r <- sub2rev [s] b; Ret (strip r)
  end.
Definition u128_sub_u (s : Z) (b : list Z) : outcome (list Z) :=
  let b0 := b ++ zeros (2 - length b) in
  do r <- sub2rev [s mod B; s / B] b0; Ret (strip r).

(** * BigInt sign dispatch: bigint_add! / bigint_sub! *)
Definition ucmp (a b : list Z) : outcome comparison := cmp_slice a b.

Definition iadd (p : addsub_params) (x y : bigint) : outcome bigint :=
  match sg x, sg y with
  | _, NoSign => Ret x
  | NoSign, _ => Ret y
  | Plus, Plus | Minus, Minus =>
      do m <- uadd p (mag x) (mag y); Ret (from_biguint (sg x) m)
  | _, _ =>
      do c <- ucmp (mag x) (mag y);
      match c with
      | Lt => do m <- usub p (mag y) (mag x); Ret (from_biguint (sg y) m)
      | Gt => do m <- usub p (mag x) (mag y); Ret (from_biguint (sg x) m)
      | Eq => Ret (mkint NoSign [])
      end
  end.

Definition ineg (x : bigint) : bigint := mkint (sign_neg (sg x)) (mag x).

Definition isub (p : addsub_params) (x y : bigint) : outcome bigint :=
  match sg x, sg y with
  | _, NoSign => Ret x
  | NoSign, _ => Ret (ineg y)
  | Plus, Minus | Minus, Plus =>
      do m <- uadd p (mag x) (mag y); Ret (from_biguint (sg x) m)
  | _, _ =>
      do c <- ucmp (mag x) (mag y);
      match c with
      | Lt => do m <- usub p (mag y) (mag x); Ret (from_biguint (sign_neg (sg x)) m)
      | Gt => do m <- usub p (mag x) (mag y); Ret (from_biguint (sg x) m)
      | Eq => Ret (mkint NoSign [])
      end
  end.
