(* ShiftCore.v — executable model of biguint_shl2 / biguint_shr2 (src/biguint/shift.rs),
   the digit+bit shift kernels used by division, multiplication (Toom-3), gcd, roots and
   the shift operators.  Definitions only; specs are proved in proofs/ShiftCoreProofs.v.
   [digits] = whole digits, [shift] = remaining bits (0..63). *)
From BigNum Require Import Base.
Open Scope Z_scope.

(** the bit loop of shl2 over data[digits..]: (elem << shift) | carry, carry = elem >> (64-shift) *)
Fixpoint shl_bits (shift carry : Z) (l : list Z) : list Z * Z :=
  match l with
  | [] => ([], carry)
  | e :: r =>
      let new_carry := e / 2 ^ (64 - shift) in
      let e' := Z.lor ((e * 2 ^ shift) mod B) carry in
      let '(r', c) := shl_bits shift new_carry r in (e' :: r', c)
  end.

Definition shl2 (a : list Z) (digits shift : Z) : list Z :=
  let data := zeros (Z.to_nat digits) ++ a in
  let data' :=
    if 0 <? shift then
      let '(hi, carry) := shl_bits shift 0 a in
      let d := zeros (Z.to_nat digits) ++ hi in
      if carry =? 0 then d else d ++ [carry]
    else data in
  strip data'.

(** the bit loop of shr2, most significant digit first: (elem >> shift) | borrow,
    borrow = elem << (64-shift) (wrapping) *)
Fixpoint shr_bits_rev (shift borrow : Z) (l : list Z) : list Z :=   (* l is MSB first *)
  match l with
  | [] => []
  | e :: r =>
      let new_borrow := (e * 2 ^ (64 - shift)) mod B in
      Z.lor (e / 2 ^ shift) borrow :: shr_bits_rev shift new_borrow r
  end.

Definition shr2 (a : list Z) (digits shift : Z) : list Z :=
  if Z.of_nat (length a) <=? digits then []
  else
    let data := skipn (Z.to_nat digits) a in
    let data' := if 0 <? shift then rev (shr_bits_rev shift 0 (rev data)) else data in
    strip data'.

(** `biguint_shl` / `biguint_shr` for a non-negative bit count [n] (the primitive-type
    dispatch, negative amounts and conversions are in model/Bits*.v). *)
Definition ushl (a : list Z) (n : Z) : list Z :=
  match a with [] => [] | _ => shl2 a (n / 64) (n mod 64) end.
Definition ushr (a : list Z) (n : Z) : list Z :=
  match a with [] => [] | _ => shr2 a (n / 64) (n mod 64) end.
