(* BitDigits.v — executable model of the four bit-regrouping routines of
   src/biguint/convert.rs: from_bitwise_digits_le, from_inexact_bitwise_digits_le,
   to_bitwise_digits_le, to_inexact_bitwise_digits_le (power-of-two radices, bits = 1..8).
   Shared by the byte import/export (bits = 8, C09) and the radix/text area (C06).
   Small digits ("u8") are [Z] in [list Z], little-endian.  Definitions only; proofs in
   proofs/BitDigitsProofs.v.  Internal sites 900-919. *)
From BigNum Require Import Base.
Open Scope Z_scope.

Definition is_nil {A} (l : list A) : bool := match l with [] => true | _ => false end.

(** `v.iter().all(|&c| BigDigit::from(c) < (1 << bits))` *)
Definition all_below (bits : Z) (v : list Z) : bool := forallb (fun c => c <? 2 ^ bits) v.

(** `slice.chunks(n)` (n >= 1): consecutive pieces of n elements, the last one shorter. *)
Fixpoint chunks_fuel (f n : nat) (l : list Z) : list (list Z) :=
  match f with
  | O => []
  | S f' => match l with
            | [] => []
            | _ => firstn n l :: chunks_fuel f' n (skipn n l)
            end
  end.
Definition chunks (n : nat) (l : list Z) : list (list Z) := chunks_fuel (length l) n l.

(** `chunk.iter().rev().fold(0, |acc, &c| (acc << bits) | BigDigit::from(c))`
    (a left fold over the reversed chunk = a right fold over the chunk; `<<` on u64 drops
    the bits shifted out) *)
Definition fold_chunk (bits : Z) (chunk : list Z) : Z :=
  fold_right (fun c acc => Z.lor ((acc * 2 ^ bits) mod B) c) 0 chunk.

(** from_bitwise_digits_le: bits divides 64 *)
Definition from_bitwise_digits_le (v : list Z) (bits : Z) : outcome (list Z) :=
  do _ <- assert_ (negb (is_nil v) && (0 <? bits) && (bits <=? 8) && (64 mod bits =? 0))
                  (Internal 900);
  do _ <- assert_ (all_below bits v) (Internal 901);
  let digits_per_big_digit := 64 / bits in
  Ret (strip (map (fold_chunk bits) (chunks (Z.to_nat digits_per_big_digit) v))).

(** from_inexact_bitwise_digits_le: the accumulating loop `for &c in v` with state
    (d, dbits); returns the pushed big digits.  `<<`/`>>` by >= 64 and u8 underflow are
    debug panics. *)
Fixpoint from_inexact_loop (bits : Z) (v : list Z) (d dbits : Z) : outcome (list Z) :=
  match v with
  | [] =>
      if 0 <? dbits
      then do _ <- assert_ (dbits <? 64) (Internal 905); Ret [d]
      else Ret []
  | c :: v' =>
      do _ <- assert_ (dbits <? 64) (Internal 904);
      let d1 := Z.lor d ((c * 2 ^ dbits) mod B) in
      let dbits1 := dbits + bits in
      if dbits1 >=? 64 then
        let dbits2 := dbits1 - 64 in
        do _ <- assert_ ((0 <=? bits - dbits2) && (bits - dbits2 <? 64)) (Internal 906);
        do r <- from_inexact_loop bits v' (c / 2 ^ (bits - dbits2)) dbits2;
        Ret (d1 :: r)
      else from_inexact_loop bits v' d1 dbits1
  end.

Definition from_inexact_bitwise_digits_le (v : list Z) (bits : Z) : outcome (list Z) :=
  do _ <- assert_ (negb (is_nil v) && (0 <? bits) && (bits <=? 8) && negb (64 mod bits =? 0))
                  (Internal 902);
  do _ <- assert_ (all_below bits v) (Internal 903);
  do data <- from_inexact_loop bits v 0 0;
  Ret (strip data).

(** `for _ in 0..digits_per_big_digit { res.push((r & mask) as u8); r >>= bits; }` *)
Fixpoint to_digits_fixed (n : nat) (bits r : Z) : list Z :=
  match n with
  | O => []
  | S n' => Z.land r (2 ^ bits - 1) :: to_digits_fixed n' bits (r / 2 ^ bits)
  end.
(** `while r != 0 { res.push((r & mask) as u8); r >>= bits; }` *)
Fixpoint to_digits_while (f : nat) (bits r : Z) : outcome (list Z) :=
  if r =? 0 then Ret []
  else match f with
       | O => OutOfFuel
       | S f' => do t <- to_digits_while f' bits (r / 2 ^ bits);
                 Ret (Z.land r (2 ^ bits - 1) :: t)
       end.

(** to_bitwise_digits_le: bits divides 64; [u] is the (non-zero) digit vector *)
Definition to_bitwise_digits_le (u : list Z) (bits : Z) : outcome (list Z) :=
  do _ <- assert_ (negb (is_nil u) && (0 <? bits) && (bits <=? 8) && (64 mod bits =? 0))
                  (Internal 907);
  let digits_per_big_digit := Z.to_nat (64 / bits) in
  do t <- to_digits_while 64 bits (last u 0);
  Ret (flat_map (fun r => to_digits_fixed digits_per_big_digit bits r) (removelast u) ++ t).

(** to_inexact_bitwise_digits_le: inner `while rbits >= bits` loop for one big digit [c];
    returns (pushed digits, r, rbits). *)
Fixpoint to_inexact_inner (f : nat) (bits c r rbits : Z) : outcome (list Z * Z * Z) :=
  if rbits <? bits then Ret ([], r, rbits)
  else match f with
       | O => OutOfFuel
       | S f' =>
           let x := Z.land r (2 ^ bits - 1) in
           let r1 := r / 2 ^ bits in
           do r2 <- (if rbits >? 64 then
                       let sh := 64 - (rbits - bits) in
                       do _ <- assert_ ((0 <=? sh) && (sh <? 64)) (Internal 911);
                       Ret (c / 2 ^ sh)
                     else Ret r1);
           do t <- to_inexact_inner f' bits c r2 (rbits - bits);
           let '(out, r3, rb3) := t in
           Ret (x :: out, r3, rb3)
       end.

Fixpoint to_inexact_outer (bits : Z) (u : list Z) (r rbits : Z) : outcome (list Z) :=
  match u with
  | [] => Ret (if rbits =? 0 then [] else [r mod 256])       (* `r as u8` *)
  | c :: u' =>
      do _ <- assert_ (rbits <? 64) (Internal 910);
      let r1 := Z.lor r ((c * 2 ^ rbits) mod B) in
      do t <- to_inexact_inner 72 bits c r1 (rbits + 64);
      let '(out, r2, rb2) := t in
      do rest <- to_inexact_outer bits u' r2 rb2;
      Ret (out ++ rest)
  end.

(** `while let Some(&0) = res.last() { res.pop(); }` is [strip] on the small digits. *)
Definition to_inexact_bitwise_digits_le (u : list Z) (bits : Z) : outcome (list Z) :=
  do _ <- assert_ (negb (is_nil u) && (0 <? bits) && (bits <=? 8) && negb (64 mod bits =? 0))
                  (Internal 909);
  do res <- to_inexact_outer bits u 0 0;
  Ret (strip res).
