(* RadixApi.v — the C06 entry points with the kernels of the other areas plugged in.
   This is the only file that names the kernels; Radix.v / RadixText.v are generic in them. *)
From BigNum Require Import Base AddSub Radix RadixText RadixKernels.
Open Scope Z_scope.

Definition u_from_radix_digits_be (p : radix_params) := from_radix_digits_be (k_mac p) p.
Definition u_to_radix_digits_le (p : radix_params) :=
  to_radix_digits_le (k_mul p) (k_divrem p) (k_divdig p) p.

Definition u_from_radix_be (p : radix_params) :=
  from_radix_be (k_mac p) (k_from_bits p) (k_from_inexact p) p.
Definition u_from_radix_le (p : radix_params) :=
  from_radix_le (k_mac p) (k_from_bits p) (k_from_inexact p) p.
Definition i_from_radix_be (p : radix_params) :=
  ifrom_radix_be (k_mac p) (k_from_bits p) (k_from_inexact p) p.
Definition i_from_radix_le (p : radix_params) :=
  ifrom_radix_le (k_mac p) (k_from_bits p) (k_from_inexact p) p.

Definition u_to_radix_le (p : radix_params) :=
  to_radix_le (k_mul p) (k_divrem p) (k_divdig p) (k_to_bits p) (k_to_inexact p) p.
Definition u_to_radix_be (p : radix_params) :=
  to_radix_be (k_mul p) (k_divrem p) (k_divdig p) (k_to_bits p) (k_to_inexact p) p.
Definition i_to_radix_le (p : radix_params) :=
  ito_radix_le (k_mul p) (k_divrem p) (k_divdig p) (k_to_bits p) (k_to_inexact p) p.
Definition i_to_radix_be (p : radix_params) :=
  ito_radix_be (k_mul p) (k_divrem p) (k_divdig p) (k_to_bits p) (k_to_inexact p) p.

Definition u_to_str_radix (p : radix_params) :=
  to_str_radix (k_mul p) (k_divrem p) (k_divdig p) (k_to_bits p) (k_to_inexact p) p.
Definition i_to_str_radix (p : radix_params) :=
  ito_str_radix (k_mul p) (k_divrem p) (k_divdig p) (k_to_bits p) (k_to_inexact p) p.

Definition u_from_str_radix (p : radix_params) :=
  from_str_radix (k_mac p) (k_from_bits p) (k_from_inexact p) p.
Definition i_from_str_radix (p : radix_params) :=
  ifrom_str_radix (k_mac p) (k_from_bits p) (k_from_inexact p) p.
Definition u_from_str (p : radix_params) := from_str (k_mac p) (k_from_bits p) (k_from_inexact p) p.
Definition i_from_str (p : radix_params) := ifrom_str (k_mac p) (k_from_bits p) (k_from_inexact p) p.
Definition u_parse_bytes (p : radix_params) :=
  parse_bytes (k_mac p) (k_from_bits p) (k_from_inexact p) p.
Definition i_parse_bytes (p : radix_params) :=
  iparse_bytes (k_mac p) (k_from_bits p) (k_from_inexact p) p.

Definition u_fmt (p : radix_params) :=
  fmt_u (k_mul p) (k_divrem p) (k_divdig p) (k_to_bits p) (k_to_inexact p) p.
Definition i_fmt (p : radix_params) :=
  fmt_i (k_mul p) (k_divrem p) (k_divdig p) (k_to_bits p) (k_to_inexact p) p.

(** round trips (the composition the property text ends with) *)
Definition u_rt_str (p : radix_params) (u : list Z) (r : Z) :=
  do s <- u_to_str_radix p u r; u_from_str_radix p s r.
Definition i_rt_str (p : radix_params) (x : bigint) (r : Z) :=
  do s <- i_to_str_radix p x r; i_from_str_radix p s r.
Definition u_rt_radix_le (p : radix_params) (u : list Z) (r : Z) :=
  do d <- u_to_radix_le p u r; u_from_radix_le p d r.
Definition u_rt_radix_be (p : radix_params) (u : list Z) (r : Z) :=
  do d <- u_to_radix_be p u r; u_from_radix_be p d r.
