(* Iter.v — executable model of src/biguint/iter.rs (the 64-bit-digit arm of cfg_digit!):
   U32Digits, a hand-written state machine {data; next_is_lo; last_hi_is_zero} over a slice
   of u64 digits, and U64Digits, a plain slice iterator.  Definitions only; the refinement
   to a deque is proved in proofs/IterProofs.v.  Internal sites 930-939. *)
From BigNum Require Import Base.
Open Scope Z_scope.

Definition W32 : Z := 2 ^ 32.

(** `x as u32` and `(x >> 32) as u32` of a u64 *)
Definition lo32 (d : Z) : Z := d mod W32.
Definition hi32 (d : Z) : Z := (d / W32) mod W32.

(** slice helpers: `split_last` / `last` *)
Fixpoint last_opt (l : list Z) : option Z :=
  match l with [] => None | [d] => Some d | _ :: r => last_opt r end.

(** * U32Digits *)
Record u32it := mk32 { it_data : list Z; it_next_is_lo : bool; it_last_hi_is_zero : bool }.

(** U32Digits::new *)
Definition it_new (data : list Z) : u32it :=
  mk32 data true
       (match last_opt data with Some l => hi32 l =? 0 | None => false end).

(** Iterator::next *)
Definition it_next (s : u32it) : option Z * u32it :=
  match it_data s with
  | first :: data =>
      let next_is_lo := it_next_is_lo s in
      if next_is_lo then
        (Some (lo32 first), mk32 (it_data s) (negb next_is_lo) (it_last_hi_is_zero s))
      else
        match data with
        | [] => if it_last_hi_is_zero s
                then (None, mk32 data (negb next_is_lo) false)
                else (Some (hi32 first), mk32 data (negb next_is_lo) (it_last_hi_is_zero s))
        | _ => (Some (hi32 first), mk32 data (negb next_is_lo) (it_last_hi_is_zero s))
        end
  | [] => (None, s)
  end.

(** DoubleEndedIterator::next_back *)
Definition it_next_back (s : u32it) : option Z * u32it :=
  match last_opt (it_data s) with
  | Some last =>
      let data := removelast (it_data s) in
      let last_is_lo := it_last_hi_is_zero s in
      if last_is_lo then
        match data with
        | [] => if negb (it_next_is_lo s)
                then (None, mk32 data true (negb last_is_lo))
                else (Some (lo32 last), mk32 data (it_next_is_lo s) (negb last_is_lo))
        | _ => (Some (lo32 last), mk32 data (it_next_is_lo s) (negb last_is_lo))
        end
      else (Some (hi32 last), mk32 (it_data s) (it_next_is_lo s) (negb last_is_lo))
  | None => (None, s)
  end.

(** ExactSizeIterator::len: `data.len() * 2 - usize::from(last_hi_is_zero) - usize::from(!next_is_lo)`
    (usize subtraction: underflow is a debug panic) *)
Definition it_len (s : u32it) : outcome Z :=
  let a := Z.of_nat (length (it_data s)) * 2 in
  let b := a - (if it_last_hi_is_zero s then 1 else 0) in
  do _ <- assert_ (0 <=? b) (Internal 930);
  let c := b - (if negb (it_next_is_lo s) then 1 else 0) in
  do _ <- assert_ (0 <=? c) (Internal 931);
  Ret c.

(** size_hint = (len, Some(len)) *)
Definition it_size_hint (s : u32it) : outcome (Z * option Z) :=
  do n <- it_len s; Ret (n, Some n).

(** `last(mut self) = self.next_back()`, `count(self) = self.len()` *)
Definition it_last (s : u32it) : option Z := fst (it_next_back s).
Definition it_count (s : u32it) : outcome Z := it_len s.

(** default Iterator::nth: `self.advance_by(n).ok()?; self.next()` where the default
    advance_by calls next() n times and stops at the first None. *)
Fixpoint it_advance (k : nat) (s : u32it) : bool * u32it :=
  match k with
  | O => (true, s)
  | S k' => match it_next s with
            | (None, s') => (false, s')
            | (Some _, s') => it_advance k' s'
            end
  end.
Definition it_nth (k : nat) (s : u32it) : option Z * u32it :=
  let '(okk, s') := it_advance k s in
  if okk then it_next s' else (None, s').

(** `collect::<Vec<u32>>()`: next() until None (fuel: two items per digit, plus the None) *)
Fixpoint it_collect_fuel (f : nat) (s : u32it) : outcome (list Z) :=
  match f with
  | O => OutOfFuel
  | S f' => match it_next s with
            | (None, _) => Ret []
            | (Some x, s') => do r <- it_collect_fuel f' s'; Ret (x :: r)
            end
  end.
Definition it_collect (s : u32it) : outcome (list Z) :=
  it_collect_fuel (2 * length (it_data s) + 1) s.

(** * Call scripts (any interleaving of calls on one iterator) *)
Inductive call := CNext | CBack | CLen | CHint | CNth (k : nat) | CLast | CCount.
Inductive obs :=
| OItem (x : option Z)        (* next / next_back / nth / last *)
| OLen (n : Z)                (* len / count *)
| OHint (lo : Z) (hi : option Z)
| OPanic (k : panic_kind).

(** run a script; [last] and [count] consume the iterator and end the script; a panic ends
    it as well. *)
Fixpoint it_run (cs : list call) (s : u32it) : list obs :=
  match cs with
  | [] => []
  | CNext :: r => let '(x, s') := it_next s in OItem x :: it_run r s'
  | CBack :: r => let '(x, s') := it_next_back s in OItem x :: it_run r s'
  | CNth k :: r => let '(x, s') := it_nth k s in OItem x :: it_run r s'
  | CLen :: r => match it_len s with
                 | Ret n => OLen n :: it_run r s
                 | Panic k => [OPanic k]
                 | OutOfFuel => [OPanic (Internal 939)]
                 end
  | CHint :: r => match it_size_hint s with
                  | Ret (lo, hi) => OHint lo hi :: it_run r s
                  | Panic k => [OPanic k]
                  | OutOfFuel => [OPanic (Internal 939)]
                  end
  | CLast :: _ => [OItem (it_last s)]
  | CCount :: _ => match it_count s with
                   | Ret n => [OLen n]
                   | Panic k => [OPanic k]
                   | OutOfFuel => [OPanic (Internal 939)]
                   end
  end.

(** * U64Digits: `core::slice::Iter<u64>` (cloned) — modelled as the remaining slice *)
Definition it64_next (l : list Z) : option Z * list Z :=
  match l with [] => (None, []) | x :: r => (Some x, r) end.
Definition it64_next_back (l : list Z) : option Z * list Z :=
  match last_opt l with None => (None, l) | Some x => (Some x, removelast l) end.
Definition it64_len (l : list Z) : Z := Z.of_nat (length l).
(** slice::Iter::nth: skips n elements (all of them if n >= len) and returns the next *)
Definition it64_nth (k : nat) (l : list Z) : option Z * list Z :=
  it64_next (skipn k l).
Definition it64_last (l : list Z) : option Z := last_opt l.

Fixpoint it64_run (cs : list call) (l : list Z) : list obs :=
  match cs with
  | [] => []
  | CNext :: r => let '(x, l') := it64_next l in OItem x :: it64_run r l'
  | CBack :: r => let '(x, l') := it64_next_back l in OItem x :: it64_run r l'
  | CNth k :: r => let '(x, l') := it64_nth k l in OItem x :: it64_run r l'
  | CLen :: r => OLen (it64_len l) :: it64_run r l
  | CHint :: r => OHint (it64_len l) (Some (it64_len l)) :: it64_run r l
  | CLast :: _ => [OItem (it64_last l)]
  | CCount :: _ => [OLen (it64_len l)]
  end.

