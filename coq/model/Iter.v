(* Iter.v — executable model of src/biguint/iter.rs (the 64-bit-digit arm of cfg_digit!):
   U32Digits, a hand-written state machine {data; next_is_lo; last_hi_is_zero} over a slice
   of u64 digits, and U64Digits, a plain slice iterator.  Definitions only; the refinement
   to a deque is proved in proofs/IterProofs.v.  Internal sites 930-939.
   The flag tests / flag updates / the `len` formula are read from the source on every run
   (tools/extractors/iter.py -> [iter_params]); the proofs are generic under [iter_ok]. *)
From BigNum Require Import Base SrcLit.
Open Scope Z_scope.

Definition W32 : Z := 2 ^ 32.

(** `x as u32` and `(x >> 32) as u32` of a u64 *)
Definition lo32 (d : Z) : Z := d mod W32.
Definition hi32 (d : Z) : Z := (d / W32) mod W32.

(** slice helpers: `split_last` / `last` *)
Fixpoint last_opt (l : list Z) : option Z :=
  match l with [] => None | [d] => Some d | _ :: r => last_opt r end.

(** * U32Digits *)
Record u32it := mk32 { it_data : list Z; it_next_is_lo : bool; it_last_hi_is_zero : bool }.

(** Source-extracted decision points of the 64-bit arm (tools/extractors/iter.py). *)
Record iter_params := {
  itp_new_hi_cmp : cmpop;      (* new: `last_hi == 0`                                  -> Ceq *)
  itp_new_default : bool;      (* new: `.unwrap_or(false)`                             -> false *)
  itp_new_nil : bool;          (* new: `next_is_lo: true`                              -> true *)
  itp_next_flip : bool;        (* next: `self.next_is_lo = !next_is_lo` has its `!`    -> true *)
  itp_next_test_neg : bool;    (* next: `if next_is_lo` is negated                     -> false *)
  itp_next_end : btest;        (* next: `data.is_empty() && self.last_hi_is_zero`      -> (+, &&, +) *)
  itp_next_reset : bool;       (* next: `self.last_hi_is_zero = false`                 -> false *)
  itp_back_flip : bool;        (* next_back: `self.last_hi_is_zero = !last_is_lo`      -> true *)
  itp_back_test_neg : bool;    (* next_back: `if last_is_lo` is negated                -> false *)
  itp_back_end : btest;        (* next_back: `data.is_empty() && !self.next_is_lo`     -> (+, &&, !) *)
  itp_back_reset : bool;       (* next_back: `self.next_is_lo = true`                  -> true *)
  itp_len_mul : Z;             (* len: `self.data.len() * 2`                           -> 2 *)
  itp_len_sub1 : bool;         (* len: `- usize::from(..last_hi_is_zero)` is a `-`     -> true *)
  itp_len_lhz_neg : bool;      (* len: `usize::from(self.last_hi_is_zero)` is negated  -> false *)
  itp_len_sub2 : bool;         (* len: `- usize::from(..next_is_lo)` is a `-`          -> true *)
  itp_len_nil_neg : bool;      (* len: `usize::from(!self.next_is_lo)` is negated      -> true *)
  itp_last_back : bool         (* last: `self.next_back()` (not `self.next()`)         -> true *)
}.

Definition it_is_empty (l : list Z) : bool := match l with [] => true | _ => false end.

(** U32Digits::new *)
Definition it_new (p : iter_params) (data : list Z) : u32it :=
  mk32 data (itp_new_nil p)
       (match last_opt data with
        | Some l => cmp_eval (itp_new_hi_cmp p) (hi32 l) 0
        | None => itp_new_default p
        end).

(** Iterator::next *)
Definition it_next (p : iter_params) (s : u32it) : option Z * u32it :=
  match it_data s with
  | first :: data =>
      let next_is_lo := it_next_is_lo s in
      let nil' := blit (itp_next_flip p) next_is_lo in
      if blit (itp_next_test_neg p) next_is_lo then
        (Some (lo32 first), mk32 (it_data s) nil' (it_last_hi_is_zero s))
      else if bt_eval (itp_next_end p) (it_is_empty data) (it_last_hi_is_zero s)
      then (None, mk32 data nil' (itp_next_reset p))
      else (Some (hi32 first), mk32 data nil' (it_last_hi_is_zero s))
  | [] => (None, s)
  end.

(** DoubleEndedIterator::next_back *)
Definition it_next_back (p : iter_params) (s : u32it) : option Z * u32it :=
  match last_opt (it_data s) with
  | Some last =>
      let data := removelast (it_data s) in
      let last_is_lo := it_last_hi_is_zero s in
      let lhz' := blit (itp_back_flip p) last_is_lo in
      if blit (itp_back_test_neg p) last_is_lo then
        if bt_eval (itp_back_end p) (it_is_empty data) (it_next_is_lo s)
        then (None, mk32 data (itp_back_reset p) lhz')
        else (Some (lo32 last), mk32 data (it_next_is_lo s) lhz')
      else (Some (hi32 last), mk32 (it_data s) (it_next_is_lo s) lhz')
  | None => (None, s)
  end.

(** ExactSizeIterator::len: `data.len() * 2 - usize::from(last_hi_is_zero) - usize::from(!next_is_lo)`
    (usize subtraction: underflow is a debug panic) *)
Definition it_len (p : iter_params) (s : u32it) : outcome Z :=
  let a := Z.of_nat (length (it_data s)) * itp_len_mul p in
  let b := addsub_lit (itp_len_sub1 p) a (if blit (itp_len_lhz_neg p) (it_last_hi_is_zero s) then 1 else 0) in
  do _ <- assert_ (0 <=? b) (Internal 930);
  let c := addsub_lit (itp_len_sub2 p) b (if blit (itp_len_nil_neg p) (it_next_is_lo s) then 1 else 0) in
  do _ <- assert_ (0 <=? c) (Internal 931);
  Ret c.

(** size_hint = (len, Some(len)) *)
Definition it_size_hint (p : iter_params) (s : u32it) : outcome (Z * option Z) :=
  do n <- it_len p s; Ret (n, Some n).

(** `last(mut self) = self.next_back()`, `count(self) = self.len()` *)
Definition it_last (p : iter_params) (s : u32it) : option Z :=
  if itp_last_back p then fst (it_next_back p s) else fst (it_next p s).
Definition it_count (p : iter_params) (s : u32it) : outcome Z := it_len p s.

(** default Iterator::nth: `self.advance_by(n).ok()?; self.next()` where the default
    advance_by calls next() n times and stops at the first None. *)
Fixpoint it_advance (p : iter_params) (k : nat) (s : u32it) : bool * u32it :=
  match k with
  | O => (true, s)
  | S k' => match it_next p s with
            | (None, s') => (false, s')
            | (Some _, s') => it_advance p k' s'
            end
  end.
Definition it_nth (p : iter_params) (k : nat) (s : u32it) : option Z * u32it :=
  let '(okk, s') := it_advance p k s in
  if okk then it_next p s' else (None, s').

(** `collect::<Vec<u32>>()`: next() until None (fuel: two items per digit, plus the None) *)
Fixpoint it_collect_fuel (p : iter_params) (f : nat) (s : u32it) : outcome (list Z) :=
  match f with
  | O => OutOfFuel
  | S f' => match it_next p s with
            | (None, _) => Ret []
            | (Some x, s') => do r <- it_collect_fuel p f' s'; Ret (x :: r)
            end
  end.
Definition it_collect (p : iter_params) (s : u32it) : outcome (list Z) :=
  it_collect_fuel p (2 * length (it_data s) + 1) s.

(** * Call scripts (any interleaving of calls on one iterator) *)
Inductive call := CNext | CBack | CLen | CHint | CNth (k : nat) | CLast | CCount.
Inductive obs :=
| OItem (x : option Z)        (* next / next_back / nth / last *)
| OLen (n : Z)                (* len / count *)
| OHint (lo : Z) (hi : option Z)
| OPanic (k : panic_kind).

(** run a script; [last] and [count] consume the iterator and end the script; a panic ends
    it as well. *)
Fixpoint it_run (p : iter_params) (cs : list call) (s : u32it) : list obs :=
  match cs with
  | [] => []
  | CNext :: r => let '(x, s') := it_next p s in OItem x :: it_run p r s'
  | CBack :: r => let '(x, s') := it_next_back p s in OItem x :: it_run p r s'
  | CNth k :: r => let '(x, s') := it_nth p k s in OItem x :: it_run p r s'
  | CLen :: r => match it_len p s with
                 | Ret n => OLen n :: it_run p r s
                 | Panic k => [OPanic k]
                 | OutOfFuel => [OPanic (Internal 939)]
                 end
  | CHint :: r => match it_size_hint p s with
                  | Ret (lo, hi) => OHint lo hi :: it_run p r s
                  | Panic k => [OPanic k]
                  | OutOfFuel => [OPanic (Internal 939)]
                  end
  | CLast :: _ => [OItem (it_last p s)]
  | CCount :: _ => match it_count p s with
                   | Ret n => [OLen n]
                   | Panic k => [OPanic k]
                   | OutOfFuel => [OPanic (Internal 939)]
                   end
  end.

(** * U64Digits: `core::slice::Iter<u64>` (cloned) — modelled as the remaining slice *)
Definition it64_next (l : list Z) : option Z * list Z :=
  match l with [] => (None, []) | x :: r => (Some x, r) end.
Definition it64_next_back (l : list Z) : option Z * list Z :=
  match last_opt l with None => (None, l) | Some x => (Some x, removelast l) end.
Definition it64_len (l : list Z) : Z := Z.of_nat (length l).
(** slice::Iter::nth: skips n elements (all of them if n >= len) and returns the next *)
Definition it64_nth (k : nat) (l : list Z) : option Z * list Z :=
  it64_next (skipn k l).
Definition it64_last (l : list Z) : option Z := last_opt l.

Fixpoint it64_run (cs : list call) (l : list Z) : list obs :=
  match cs with
  | [] => []
  | CNext :: r => let '(x, l') := it64_next l in OItem x :: it64_run r l'
  | CBack :: r => let '(x, l') := it64_next_back l in OItem x :: it64_run r l'
  | CNth k :: r => let '(x, l') := it64_nth k l in OItem x :: it64_run r l'
  | CLen :: r => OLen (it64_len l) :: it64_run r l
  | CHint :: r => OHint (it64_len l) (Some (it64_len l)) :: it64_run r l
  | CLast :: _ => [OItem (it64_last l)]
  | CCount :: _ => [OLen (it64_len l)]
  end.

