(* Gcd.v — executable model of `Integer for BigUint` / `Integer for BigInt` (src/biguint.rs,
   src/bigint.rs): Stein gcd, lcm, gcd_lcm, is_multiple_of, next/prev_multiple_of, is_even/odd,
   inc/dec; num-integer's default `extended_gcd` body run over the BigInt operators
   (dependency code: modelled, not verified); `extended_gcd_lcm`.  Definitions only.
   Big multiplication / division are Section parameters [bmul], [bdivrem] (Mul.umul, Div.udivrem);
   addition, subtraction, comparison and shifts are the models of AddSub / ShiftCore. *)
From BigNum Require Import Base X86 AddSub ShiftCore PgrLoop Pow.
Open Scope Z_scope.

Record gcd_params := {
  gc_swap_cmp : cmpop;     (* `if n > m { swap }`            -> Cgt *)
  gc_shift_min : bool;     (* `cmp::min(twos(&n), twos(&m))` -> true *)
}.

(** `u64::trailing_zeros` of a non-zero digit *)
Fixpoint tz_digit (fuel : nat) (d : Z) : Z :=
  match fuel with
  | O => 0
  | S f => if Z.even d then 1 + tz_digit f (d / 2) else 0
  end.
(** `BigUint::trailing_zeros` *)
Fixpoint pgr_tz (a : list Z) : option Z :=
  match a with
  | [] => None
  | d :: r => if d =? 0 then option_map (Z.add 64) (pgr_tz r) else Some (tz_digit 64 d)
  end.
(** `BigUint::bits` *)
Definition pgr_bits (a : list Z) : Z :=
  match a with
  | [] => 0
  | _ => Z.of_nat (length a) * 64 - (63 - Z.log2 (last a 0))
  end.
(** `fn twos(x) = x.trailing_zeros().unwrap_or(0)` *)
Definition twos (a : list Z) : Z := match pgr_tz a with Some k => k | None => 0 end.

(** `BigInt::from(BigUint)` *)
Definition pgr_iof_u (m : list Z) : bigint := from_biguint Plus m.
Definition pgr_izero : bigint := mkint NoSign [].
Definition pgr_ione : bigint := mkint Plus [1].
Definition pgr_iis_zero (x : bigint) : bool := sign_eqb (sg x) NoSign.

Definition gcd_fuel (a b : list Z) : positive := Z.to_pos (pgr_bits a + pgr_bits b + 2).

Section WithBigOps.
Variable bmul : list Z -> list Z -> outcome (list Z).
Variable bdivrem : list Z -> list Z -> outcome (list Z * list Z).
Variable ap : addsub_params.
Variable p : gcd_params.

(** * BigUint *)

(** `while !m.is_zero() { m >>= twos(&m); if n > m { swap(n, m) } m -= &n; }`; state (m, n) *)
Definition stein_step (st : list Z * list Z) : outcome ((list Z * list Z) + list Z) :=
  let '(m, n) := st in
  if pgr_is_zero m then Ret (inr n)
  else
    let m1 := ushr m (twos m) in
    do c <- cmp_slice n m1;
    let '(n2, m2) := if cmpop_ord (gc_swap_cmp p) c then (m1, n) else (n, m1) in
    do m3 <- usub ap m2 n2;
    Ret (inl (m3, n2)).

Definition ugcd (a b : list Z) : outcome (list Z) :=
  if pgr_is_zero a then Ret b
  else if pgr_is_zero b then Ret a
  else
    let shift := if gc_shift_min p then Z.min (twos b) (twos a) else Z.max (twos b) (twos a) in
    let n := ushr b (twos b) in
    do g <- run_loop stein_step (gcd_fuel a b) (a, n);
    Ret (ushl g shift).

(** `self / self.gcd(other) * other` *)
Definition ulcm (a b : list Z) : outcome (list Z) :=
  if pgr_is_zero a && pgr_is_zero b then Ret []
  else
    do g <- ugcd a b;
    do qr <- bdivrem a g;
    bmul (fst qr) b.

Definition ugcd_lcm (a b : list Z) : outcome (list Z * list Z) :=
  do g <- ugcd a b;
  do l <- (if pgr_is_zero g then Ret []
           else do qr <- bdivrem a g; bmul (fst qr) b);
  Ret (g, l).

(** `if other.is_zero() { return self.is_zero() } (self % other).is_zero()` *)
Definition uis_multiple_of (a b : list Z) : outcome bool :=
  if pgr_is_zero b then Ret (pgr_is_zero a)
  else do qr <- bdivrem a b; Ret (pgr_is_zero (snd qr)).

Definition umod_floor_ (a b : list Z) : outcome (list Z) :=
  do qr <- bdivrem a b; Ret (snd qr).

(** `let m = self.mod_floor(other); if m.is_zero() { self.clone() } else { self + (other - m) }` *)
Definition unext_multiple_of (a b : list Z) : outcome (list Z) :=
  do m <- umod_floor_ a b;
  if pgr_is_zero m then Ret a
  else do d <- usub_ref_val ap b m; uadd ap a d.

(** `self - self.mod_floor(other)` *)
Definition uprev_multiple_of (a b : list Z) : outcome (list Z) :=
  do m <- umod_floor_ a b; usub_ref_val ap a m.

(** `*self -= 1u32`, `*self += 1u32` *)
Definition udec (a : list Z) : outcome (list Z) := usub_digit ap a 1.
Definition uinc (a : list Z) : outcome (list Z) := uadd_digit ap a 1.

(** * BigInt operators used below (`Mul`, `Div` (truncating), `mod_floor`) *)
Definition pgr_imul (x y : bigint) : outcome bigint :=
  do m <- bmul (mag x) (mag y);
  Ret (from_biguint (sign_mul (sg x) (sg y)) m).

(** `Integer::div_rem for BigInt`, first component (`Div<&BigInt> for &BigInt`) *)
Definition pgr_idiv (x y : bigint) : outcome bigint :=
  do qr <- bdivrem (mag x) (mag y);
  let d := from_biguint (sg x) (fst qr) in
  Ret (if sign_eqb (sg y) Minus then ineg d else d).

(** `Integer::mod_floor for BigInt` *)
Definition pgr_imod_floor (x y : bigint) : outcome bigint :=
  do m_ui <- umod_floor_ (mag x) (mag y);
  let m := from_biguint (sg y) m_ui in
  match sg x, sg y with
  | _, NoSign => Panic (Internal 1301)                       (* unreachable!() *)
  | Plus, Plus | NoSign, Plus | Minus, Minus => Ret m
  | _, _ => if pgr_iis_zero m then Ret m else isub ap y m
  end.

(** * BigInt *)
Definition igcd (x y : bigint) : outcome bigint :=
  do g <- ugcd (mag x) (mag y); Ret (pgr_iof_u g).
Definition ilcm (x y : bigint) : outcome bigint :=
  do l <- ulcm (mag x) (mag y); Ret (pgr_iof_u l).
Definition igcd_lcm (x y : bigint) : outcome (bigint * bigint) :=
  do gl <- ugcd_lcm (mag x) (mag y); Ret (pgr_iof_u (fst gl), pgr_iof_u (snd gl)).

(** num-integer `Integer::extended_gcd` default body; state (s, t, r) as pairs.
    `let q = r.1 / r.0; f = |r| { swap(r.0, r.1); r.0 = r.0 - q * r.1; r }` *)
Definition egcd_f (q : bigint) (r : bigint * bigint) : outcome (bigint * bigint) :=
  let '(r0, r1) := r in
  do qr <- pgr_imul q r0;
  do r0' <- isub ap r1 qr;
  Ret (r0', r0).

Definition egcd_state : Type := (bigint * bigint) * (bigint * bigint) * (bigint * bigint).

Definition egcd_step (st : egcd_state) : outcome (egcd_state + egcd_state) :=
  let '(s, t, r) := st in
  if pgr_iis_zero (fst r) then Ret (inr st)
  else
    do q <- pgr_idiv (snd r) (fst r);
    do r' <- egcd_f q r;
    do s' <- egcd_f q s;
    do t' <- egcd_f q t;
    Ret (inl (s', t', r')).

Definition egcd_fuel (y : bigint) : positive := Z.to_pos (val (mag y) + 2).

(** result (gcd, x, y) *)
Definition iextended_gcd (x y : bigint) : outcome (bigint * bigint * bigint) :=
  do st <- run_loop egcd_step (egcd_fuel y)
             ((pgr_izero, pgr_ione), (pgr_ione, pgr_izero), (y, x));
  let '(s, t, r) := st in
  if negb (sign_eqb (sg (snd r)) Minus) then Ret (snd r, snd s, snd t)     (* r.1 >= 0 *)
  else
    do g <- isub ap pgr_izero (snd r);
    do cx <- isub ap pgr_izero (snd s);
    do cy <- isub ap pgr_izero (snd t);
    Ret (g, cx, cy).

(** `BigInt::extended_gcd_lcm` *)
Definition iextended_gcd_lcm (x y : bigint) : outcome (bigint * bigint * bigint * bigint) :=
  do e <- iextended_gcd x y;
  let '(g, cx, cy) := e in
  do l <- (if pgr_iis_zero g then Ret pgr_izero
           else do qr <- bdivrem (mag x) (mag g);
                do m <- bmul (fst qr) (mag y);
                Ret (pgr_iof_u m));
  Ret (g, cx, cy, l).

Definition iis_multiple_of (x y : bigint) : outcome bool := uis_multiple_of (mag x) (mag y).
Definition iis_even (x : bigint) : bool := pgr_is_even (mag x).
Definition iis_odd (x : bigint) : bool := pgr_is_odd (mag x).

Definition inext_multiple_of (x y : bigint) : outcome bigint :=
  do m <- pgr_imod_floor x y;
  if pgr_iis_zero m then Ret x
  else do d <- isub ap y m; iadd ap x d.
Definition iprev_multiple_of (x y : bigint) : outcome bigint :=
  do m <- pgr_imod_floor x y; isub ap x m.

(** `Sub<u32> for BigInt` / `Add<u32> for BigInt` at the literal 1 (`dec`, `inc`) *)
Definition isub_u32 (x : bigint) (s : Z) : outcome bigint :=
  match sg x with
  | NoSign => Ret (ineg (pgr_iof_u (strip [s])))
  | Minus => do m <- uadd_digit ap (mag x) s; Ret (ineg (pgr_iof_u m))
  | Plus =>
      do c <- cmp_slice (mag x) (strip [s]);
      match c with
      | Eq => Ret pgr_izero
      | Gt => do m <- usub_digit ap (mag x) s; Ret (pgr_iof_u m)
      | Lt => do m <- digit_sub_u s (mag x); Ret (ineg (pgr_iof_u m))
      end
  end.
Definition iadd_u32 (x : bigint) (s : Z) : outcome bigint :=
  match sg x with
  | NoSign => Ret (pgr_iof_u (strip [s]))
  | Plus => do m <- uadd_digit ap (mag x) s; Ret (pgr_iof_u m)
  | Minus =>
      do c <- cmp_slice (mag x) (strip [s]);
      match c with
      | Eq => Ret pgr_izero
      | Lt => do m <- digit_sub_u s (mag x); Ret (pgr_iof_u m)
      | Gt => do m <- usub_digit ap (mag x) s; Ret (ineg (pgr_iof_u m))
      end
  end.
Definition idec (x : bigint) : outcome bigint := isub_u32 x 1.
Definition iinc (x : bigint) : outcome bigint := iadd_u32 x 1.
End WithBigOps.
