(* Monty.v — executable model of src/biguint/monty.rs (Montgomery kernel and the fixed
   4-bit-window modular exponentiation for odd moduli).  Definitions only; the specs are
   proved in proofs/MontyProofs.v.

   The big-number operations of other areas that monty_modpow calls (`x %= m`, `… % m`)
   are section parameters [bdivrem]; subtraction, comparison and the left shift are the
   models of AddSub / ShiftCore.  Internal sites 501–539. *)
From BigNum Require Import Base AddSub ShiftCore.
Open Scope Z_scope.

(** Source-extracted decision points of this area (tools/extractors/modpow.py). *)
Record modpow_params := {
  mp_window : Z;            (* monty_modpow: `let n = 4;` *)
  mp_cx_cmp : cmpop;        (* montgomery: `cx < c2` *)
  mp_cy_cmp : cmpop;        (* montgomery: `cy < c3` *)
  mp_c_cmp : cmpop;         (* montgomery: `c == 0` *)
  mp_fin1_cmp : cmpop;      (* monty_modpow: first `zz >= *m` *)
  mp_fin2_cmp : cmpop;      (* monty_modpow: second `zz >= *m` *)
  mp_odd_monty : bool;      (* modpow: `if modulus.is_odd() { monty_modpow … } else { plain_modpow … }` *)
  (* sign arms `(x_neg, m_neg) => (sign, mag)`; the bool says "mag = |m| - result" *)
  mp_pow_arms : list (bool * bool * (sign * bool));   (* bigint/power.rs modpow *)
  mp_inv_arms : list (bool * bool * (sign * bool));   (* bigint.rs modinv *)
  mp_inv_zero_guard : bool; (* bigint.rs modinv: `if result.is_zero() { return Some(BigInt::ZERO) }` *)
}.

(** ** Digit primitives *)

(** `z1 << _W + z0 = x * y + c` (u128 arithmetic: cannot overflow for u64 inputs) *)
Definition mul_add_www (x y c : Z) : Z * Z :=
  let z := x * y + c in ((z / B) mod B, z mod B).

(** `z1<<_W + z0 = x+y+c`, wrapping adds and the two wrap tests *)
Definition add_ww (x y c : Z) : Z * Z :=
  let yc := (y + c) mod B in
  let z0 := (x + yc) mod B in
  let z1 := if (z0 <? x) || (yc <? y) then 1 else 0 in
  (z1, z0).

(** `add_mul_vvw(z, x, y)`: z[..] += x[..] * y over the zipped prefix, returning the carry
    word.  `c = c_ + z1` is a checked add (Internal 505).  [c] is the running carry. *)
Fixpoint add_mul_vvw_c (z x : list Z) (y c : Z) : outcome (list Z * Z) :=
  match z, x with
  | zi :: z', xi :: x' =>
      let '(z1, z0) := mul_add_www xi y zi in
      let '(c_, zi_) := add_ww z0 c 0 in
      let c' := c_ + z1 in
      do _ <- assert_ (c' <? B) (Internal 505);
      do r <- add_mul_vvw_c z' x' y c';
      let '(zr, cr) := r in Ret (zi_ :: zr, cr)
  | _, _ => Ret (z, c)
  end.
Definition add_mul_vvw (z x : list Z) (y : Z) : outcome (list Z * Z) := add_mul_vvw_c z x y 0.

(** `sub_vv(z, x, y)`: z[i] = x[i] - y[i] - c (wrapping) for i < min(|x|,|y|,|z|); the borrow
    is recovered with the Hacker's Delight formula
    `((yi & !xi) | ((yi | !xi) & zi)) >> 63`. *)
Definition lnot64 (x : Z) : Z := B - 1 - x.
Fixpoint sub_vv_c (z x y : list Z) (c : Z) : list Z * Z :=
  match z, x, y with
  | _ :: z', xi :: x', yi :: y' =>
      let zi := ((xi - yi) mod B - c) mod B in
      let c' := Z.lor (Z.land yi (lnot64 xi)) (Z.land (Z.lor yi (lnot64 xi)) zi) / 2 ^ 63 in
      let '(zr, cr) := sub_vv_c z' x' y' c' in (zi :: zr, cr)
  | _, _, _ => (z, c)
  end.
Definition sub_vv (z x y : list Z) : list Z * Z := sub_vv_c z x y 0.

(** ** inv_mod_alt: k0 = -b^-1 mod 2^64 (Newton / Dumas doubling) *)
Fixpoint inv_loop (fuel : nat) (i t k0 : Z) : outcome Z :=
  match fuel with
  | O => OutOfFuel
  | S f =>
      if i <? 64 then
        let t' := (t * t) mod B in
        do _ <- assert_ (t' + 1 <? B) (Internal 503);        (* `t + 1` *)
        let k0' := (k0 * (t' + 1)) mod B in
        inv_loop f (2 * i) t' k0'                            (* `i <<= 1` (u8, no overflow: i <= 64) *)
      else Ret k0
  end.
Definition inv_mod_alt (b : Z) : outcome Z :=
  do _ <- assert_ (negb (Z.land b 1 =? 0)) (Internal 501);   (* assert_ne!(b & 1, 0) *)
  let k0 := (2 - b) mod B in
  do _ <- assert_ (1 <=? b) (Internal 502);                   (* `b - 1` *)
  let t := b - 1 in
  do k <- inv_loop 8 1 t k0;
  do _ <- assert_ ((k * b) mod B =? 1) (Internal 504);        (* debug_assert_eq!(k0.wrapping_mul(b), 1) *)
  Ret ((- k) mod B).

(** ** montgomery *)
Definition resize (l : list Z) (n : nat) : list Z := firstn n l ++ zeros (n - length l).

(** The row loop `for i in 0..n`, written as a recursion over the digits y[i..] (|y| = n is
    asserted before).  [z] is the whole 2n-digit accumulator, [c] the pending carry. *)
Fixpoint mont_rows (p : modpow_params) (x m : list Z) (k : Z) (n : nat)
         (ys : list Z) (i : nat) (z : list Z) (c : Z) : outcome (list Z * Z) :=
  match ys with
  | [] => Ret (z, c)
  | yi :: ys' =>
      let lo := firstn i z in
      let win := firstn n (skipn i z) in            (* z.data[i..n+i] *)
      let hi := skipn (n + i) z in
      do r2 <- add_mul_vvw win x yi;
      let '(win1, c2) := r2 in
      do zi <- match win1 with d :: _ => Ret d | [] => Panic (Internal 511) end;   (* z.data[i] *)
      let t := (zi * k) mod B in
      do r3 <- add_mul_vvw win1 m t;
      let '(win2, c3) := r3 in
      let cx := (c + c2) mod B in
      let cy := (cx + c3) mod B in
      do hi' <- match hi with _ :: h => Ret (cy :: h) | [] => Panic (Internal 512) end;  (* z.data[n+i] = cy *)
      let c' := if cmp_eval (mp_cx_cmp p) cx c2 || cmp_eval (mp_cy_cmp p) cy c3 then 1 else 0 in
      mont_rows p x m k n ys' (S i) (lo ++ win2 ++ hi') c'
  end.

Definition montgomery (p : modpow_params) (x y m : list Z) (k : Z) (n : nat) : outcome (list Z) :=
  do _ <- assert_ ((length x =? n)%nat && (length y =? n)%nat && (length m =? n)%nat) (Internal 510);
  do r <- mont_rows p x m k n y 0%nat (zeros (2 * n)) 0;
  let '(z, c) := r in
  if cmp_eval (mp_c_cmp p) c 0 then Ret (skipn n z)
  else let '(first, _) := sub_vv (firstn n z) (skipn n z) m in Ret first.

(** hook-level entry point: the `n: usize` argument as a Z *)
Definition montgomery_z (p : modpow_params) (x y m : list Z) (k n : Z) : outcome (list Z) :=
  montgomery p x y m k (Z.to_nat n).

(** ** monty_modpow *)
Definition ordz (c : comparison) : Z := match c with Lt => -1 | Eq => 0 | Gt => 1 end.

Section WithBigOps.
Variable ap : addsub_params.
Variable bdivrem : list Z -> list Z -> outcome (list Z * list Z).
Definition brem (a m : list Z) : outcome (list Z) := do qr <- bdivrem a m; Ret (snd qr).

(** `for i in 2..1 << n { powers.push(montgomery(&powers[i-1], &powers[1], …)) }` *)
Fixpoint pow_table (p : modpow_params) (cnt : nat) (m : list Z) (k : Z) (nw : nat)
         (prev p1 : list Z) : outcome (list (list Z)) :=
  match cnt with
  | O => Ret []
  | S c' =>
      do r <- montgomery p prev p1 m k nw;
      do rest <- pow_table p c' m k nw r p1;
      Ret (r :: rest)
  end.

(** `while j < BITS { … j += n }` over one exponent digit [yi]; [first] = "i == y.len()-1". *)
Fixpoint win_loop (p : modpow_params) (fuel : nat) (powers : list (list Z)) (m : list Z) (k : Z)
         (nw : nat) (first : bool) (yi j : Z) (z : list Z) : outcome (list Z) :=
  match fuel with
  | O => OutOfFuel
  | S f =>
      if j <? 64 then
        let w := mp_window p in
        do z4 <- (if negb first || negb (j =? 0) then
                    do zz <- montgomery p z z m k nw;
                    do z <- montgomery p zz zz m k nw;
                    do zz <- montgomery p z z m k nw;
                    montgomery p zz zz m k nw
                  else Ret z);
        do _ <- assert_ ((0 <=? w) && (w <=? 64) && (0 <? 64 - w)) (Internal 520);  (* BITS - n, yi >> (BITS-n) *)
        let idx := yi / 2 ^ (64 - w) in
        do pw <- match nth_error powers (Z.to_nat idx) with
                 | Some q => Ret q | None => Panic (Internal 521) end;
        do zz <- montgomery p z4 pw m k nw;
        win_loop p f powers m k nw first ((yi * 2 ^ w) mod B) (j + w) zz
      else Ret z
  end.

(** `for i in (0..y.data.len()).rev()`; [ys] is the exponent most significant digit first. *)
Fixpoint exp_loop (p : modpow_params) (powers : list (list Z)) (m : list Z) (k : Z) (nw : nat)
         (first : bool) (ys : list Z) (z : list Z) : outcome (list Z) :=
  match ys with
  | [] => Ret z
  | yi :: ys' =>
      do z' <- win_loop p 66 powers m k nw first yi 0 z;
      exp_loop p powers m k nw false ys' z'
  end.

Definition monty_modpow (p : modpow_params) (x y m : list Z) : outcome (list Z) :=
  do m0 <- match m with d :: _ => Ret d | [] => Panic (Internal 530) end;   (* m.data[0] *)
  do _ <- assert_ (Z.land m0 1 =? 1) (Internal 531);
  do k <- inv_mod_alt m0;
  let nw := length m in
  do x1 <- (if (nw <? length x)%nat then brem x m else Ret x);
  let x2 := if (length x1 <? nw)%nat then resize x1 nw else x1 in
  let sh := 2 * Z.of_nat nw * 64 in
  do _ <- assert_ (sh <? B) (Internal 532);                 (* 2 * num_words as u64 * 64 *)
  do rr1 <- brem (ushl [1] sh) m;
  let rr := if (length rr1 <? nw)%nat then resize rr1 nw else rr1 in
  let one := resize [1] nw in
  let w := mp_window p in
  do _ <- assert_ ((0 <=? w) && (w <? 64)) (Internal 533);  (* 1 << n *)
  do p0 <- montgomery p one rr m k nw;
  do p1 <- montgomery p x2 rr m k nw;
  do rest <- pow_table p (Z.to_nat (2 ^ w - 2)) m k nw p1 p1;
  let powers := p0 :: p1 :: rest in
  let z := resize p0 nw in
  do z' <- exp_loop p powers m k nw true (rev y) z;
  do zz <- montgomery p z' one m k nw;
  let zz := strip zz in
  do c1 <- cmp_slice zz m;
  if cmp_eval (mp_fin1_cmp p) (ordz c1) 0 then
    do zz <- usub ap zz m;
    do c2 <- cmp_slice zz m;
    if cmp_eval (mp_fin2_cmp p) (ordz c2) 0 then
      do zz <- brem zz m; Ret (strip zz)
    else Ret (strip zz)
  else Ret (strip zz).

End WithBigOps.
