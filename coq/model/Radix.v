(* Radix.v — executable model of the radix conversions of src/biguint/convert.rs
   (fls/ilog2, generate_radix_bases/get_radix_base, from_radix_digits_be, from_radix_be/le,
   to_radix_digits_le incl. the big-base path, to_radix_le) and of the digit-vector API of
   src/biguint.rs / src/bigint.rs (from_radix_be/le, to_radix_be/le).  Definitions only.
   Internal sites 600-649.

   The routines of other areas that this code calls are SECTION VARIABLES (kernels):
     k_mac      = multiplication.rs  mac_with_carry        (Mul.mac_with_carry)
     k_mul      = `&BigUint * &BigUint`                    (Mul.umul (rp_mul p))
     k_divrem   = `Integer::div_rem(&BigUint, &BigUint)`   (Div.udivrem (rp_div p))
     k_divdig   = division.rs  div_rem_digit               (Div.div_rem_digit)
     k_from_bits / k_from_inexact / k_to_bits / k_to_inexact = the four bit-regrouping
                  routines of convert.rs                   (module BitDigits)
   They are bound to the models of those areas in model/RadixKernels.v / model/RadixApi.v.
   Small digits (`u8`) are [Z] in [list Z]. *)
From BigNum Require Import Base AddSub Mul Div.
Open Scope Z_scope.

(** Source-extracted parameters of this area. *)
Record radix_params := {
  rp_as : addsub_params;        (* add2 used by from_radix_digits_be *)
  rp_mul : mul_params;          (* `&big_base * &big_base` *)
  rp_div : div_params;          (* `digits.div_rem(&big_base)` *)
  rp_str_lo : Z; rp_str_hi : Z; (* `assert!(2 <= radix && radix <= 36)` (text) *)
  rp_dig_lo : Z; rp_dig_hi : Z; (* `assert!(2 <= radix && radix <= 256)` (digit vectors) *)
  rp_guard : Z;                 (* `if radix != 256 && buf.iter().any(|&b| b >= radix as u8)` *)
  rp_big_len_cmp : cmpop;       (* `if digits.data.len() >= 64` *)
  rp_big_len : Z;
  rp_target_cmp : cmpop;        (* `while big_base.data.len() < target_len` *)
  rp_big_cmp : cmpop;           (* `while digits > big_base` *)
  rp_small_cmp : cmpop;         (* `while digits.data.len() > 1` *)
  rp_small_len : Z;
  rp_chunk_cmp : cmpop;         (* `let i = if r == 0 { power } else { r }` *)
  rp_chunk_rhs : Z;
  rp_chunk_then_power : bool;   (* true: then-branch is `power`, else-branch is `r` *)
  rp_gen_lo : Z; rp_gen_hi : Z; (* generate_radix_bases: `radix = 3; while radix < 256` *)
  rp_gen_cmp : cmpop;           (* `if b > max { break }` *)
  rp_arms : list (Z * Z * Z);   (* byte→digit arms `lo..=hi => b - lo + add` *)
  rp_skip : Z;                  (* `b'_' => continue` *)
  rp_ten : Z; rp_digit0 : Z; rp_lettera : Z;  (* `if *r < 10 { += b'0' } else { += b'a' - 10 }` *)
}.

Definition zlen {A} (l : list A) : Z := Z.of_nat (length l).
Definition cmp_eval_c (c : cmpop) (o : comparison) : bool :=
  match c, o with
  | Clt, Lt | Cle, Lt | Cle, Eq | Ceq, Eq | Cne, Lt | Cne, Gt | Cge, Eq | Cge, Gt | Cgt, Gt => true
  | _, _ => false
  end.

(** `fls`, `ilog2` (u8 arithmetic: `fls(v) - 1` underflows for v = 0) *)
Definition fls (v : Z) : Z := if v <=? 0 then 0 else Z.log2 v + 1.
Definition ilog2 (v : Z) : outcome Z :=
  do _ <- assert_ (1 <=? fls v) (Internal 601); Ret (fls v - 1).
(** `u32::is_power_of_two` *)
Definition rpow2 (r : Z) : bool := (0 <? r) && (Z.land r (r - 1) =? 0).

(** * generate_radix_bases *)
(** `while let Some(b) = base.checked_mul(radix) { if b > max { break } base = b; power += 1 }` *)
Fixpoint gen_base_loop (f : nat) (c : cmpop) (max radix base power : Z) : Z * Z :=
  match f with
  | O => (0, 0)                         (* a non-terminating const fn does not compile *)
  | S f' =>
      let b := base * radix in
      if b <? B then
        if cmp_eval c b max then (base, power)
        else gen_base_loop f' c max radix b (power + 1)
      else (base, power)
  end.
Definition gen_entry (p : radix_params) (max radix : Z) : Z * Z :=
  if (rp_gen_lo p <=? radix) && (radix <? rp_gen_hi p) && negb (rpow2 radix)
  then gen_base_loop 64 (rp_gen_cmp p) max radix radix 1
  else (0, 0).
Definition radix_bases (p : radix_params) (max : Z) : list (Z * Z) :=
  map (fun k => gen_entry p max (Z.of_nat k)) (seq 0 257).

(** `get_radix_base` (BASES = generate_radix_bases(big_digit::MAX)) *)
Definition get_radix_base (p : radix_params) (radix : Z) : outcome (Z * Z) :=
  do _ <- assert_ (negb (rpow2 radix)) (Internal 602);
  do _ <- assert_ ((3 <=? radix) && (radix <? 256)) (Internal 603);
  match nth_error (radix_bases p (B - 1)) (Z.to_nat radix) with
  | Some x => Ret x
  | None => Panic (Internal 604)
  end.

(** `iter().fold(0, |acc, &d| acc * radix + BigDigit::from(d))` on u64 (overflow = debug panic) *)
Fixpoint fold_digits (radix acc : Z) (l : list Z) : outcome Z :=
  match l with
  | [] => Ret acc
  | d :: r =>
      let x := acc * radix + d in
      do _ <- assert_ (x <? B) (Internal 614);
      fold_digits radix x r
  end.

Definition last_is_zero (l : list Z) : bool :=
  match rev l with d :: _ => d =? 0 | [] => false end.

(** `for _ in 0..n { res.push((r % radix) as u8); r /= radix; }` *)
Fixpoint emit_fixed (n : nat) (radix r : Z) : list Z :=
  match n with
  | O => []
  | S n' => ((r mod radix) mod 256) :: emit_fixed n' radix (r / radix)
  end.
(** `while r != 0 { res.push((r % radix) as u8); r /= radix; }` *)
Fixpoint emit_while (f : nat) (radix r : Z) : outcome (list Z) :=
  if r =? 0 then Ret []
  else match f with
       | O => OutOfFuel
       | S f' => do t <- emit_while f' radix (r / radix);
                 Ret (((r mod radix) mod 256) :: t)
       end.

Section Kernels.
Variable k_mac : Z -> Z -> Z -> Z -> outcome (Z * Z).
Variable k_mul : list Z -> list Z -> outcome (list Z).
Variable k_divrem : list Z -> list Z -> outcome (list Z * list Z).
Variable k_divdig : list Z -> Z -> outcome (list Z * Z).
Variable k_from_bits k_from_inexact k_to_bits k_to_inexact : list Z -> Z -> outcome (list Z).

(** * from_radix_digits_be *)
(** `let mut carry = 0; for d in data.iter_mut() { *d = mac_with_carry(0, *d, base, &mut carry); }` *)
Fixpoint mul_base_loop (data : list Z) (base carry : Z) : outcome (list Z * Z) :=
  match data with
  | [] => Ret ([], carry)
  | d :: r =>
      do x <- k_mac 0 d base carry;
      let '(lo, c) := x in
      do y <- mul_base_loop r base c;
      let '(r', c') := y in
      Ret (lo :: r', c')
  end.

(** `for chunk in tail.chunks(power) { … }` (fuel = number of remaining small digits) *)
Fixpoint be_loop (f : nat) (p : radix_params) (power : nat) (radix base : Z)
         (tail data : list Z) : outcome (list Z) :=
  match tail with
  | [] => Ret data
  | _ =>
      match f with
      | O => OutOfFuel
      | S f' =>
          let chunk := firstn power tail in
          let data1 := if last_is_zero data then data else data ++ [0] in
          do x <- mul_base_loop data1 base 0;
          let '(data2, carry) := x in
          do _ <- assert_ (carry =? 0) (Internal 616);
          do n <- fold_digits radix 0 chunk;
          do data3 <- add2 (rp_as p) data2 [n];
          be_loop f' p power radix base (skipn power tail) data3
      end
  end.

Definition from_radix_digits_be (p : radix_params) (v : list Z) (radix : Z) : outcome (list Z) :=
  do _ <- assert_ (negb (zlen v =? 0) && negb (rpow2 radix)) (Internal 610);
  do _ <- assert_ (forallb (fun c => c <? radix) v) (Internal 611);
  do bp <- get_radix_base p radix;
  let '(base, power) := bp in
  do _ <- assert_ (negb (power =? 0)) (Internal 612);          (* `v.len() % power` *)
  let r := zlen v mod power in
  let i := if cmp_eval (rp_chunk_cmp p) r (rp_chunk_rhs p)
           then (if rp_chunk_then_power p then power else r)
           else (if rp_chunk_then_power p then r else power) in
  do _ <- assert_ (i <=? zlen v) (Internal 613);              (* split_at *)
  let head := firstn (Z.to_nat i) v in
  let tail := skipn (Z.to_nat i) v in
  do first <- fold_digits radix 0 head;
  do _ <- assert_ (zlen tail mod power =? 0) (Internal 615);
  do data <- be_loop (length tail) p (Z.to_nat power) radix base tail [first];
  Ret (strip data).                                            (* biguint_from_vec *)

(** * from_radix_be / from_radix_le *)
Definition radix_guard (p : radix_params) (buf : list Z) (radix : Z) : bool :=
  negb (radix =? rp_guard p) && existsb (fun b => b >=? radix mod 256) buf.

Definition from_pow2 (v : list Z) (radix : Z) : outcome (list Z) :=
  do bits <- ilog2 radix;
  do _ <- assert_ (negb (bits =? 0)) (Internal 605);          (* `big_digit::BITS % bits` *)
  if 64 mod bits =? 0 then k_from_bits v bits else k_from_inexact v bits.

Definition from_radix_be (p : radix_params) (buf : list Z) (radix : Z) : outcome (option (list Z)) :=
  do _ <- assert_ ((rp_dig_lo p <=? radix) && (radix <=? rp_dig_hi p)) BadRadix;
  match buf with
  | [] => Ret (Some [])
  | _ =>
      if radix_guard p buf radix then Ret None
      else
        do res <- (if rpow2 radix then from_pow2 (rev buf) radix
                   else from_radix_digits_be p buf radix);
        Ret (Some res)
  end.

Definition from_radix_le (p : radix_params) (buf : list Z) (radix : Z) : outcome (option (list Z)) :=
  do _ <- assert_ ((rp_dig_lo p <=? radix) && (radix <=? rp_dig_hi p)) BadRadix;
  match buf with
  | [] => Ret (Some [])
  | _ =>
      if radix_guard p buf radix then Ret None
      else
        do res <- (if rpow2 radix then from_pow2 buf radix
                   else from_radix_digits_be p (rev buf) radix);
        Ret (Some res)
  end.

(** BigInt::from_radix_be/le *)
Definition ifrom_radix_be (p : radix_params) (s : sign) (buf : list Z) (radix : Z)
  : outcome (option bigint) :=
  do r <- from_radix_be p buf radix; Ret (option_map (from_biguint s) r).
Definition ifrom_radix_le (p : radix_params) (s : sign) (buf : list Z) (radix : Z)
  : outcome (option bigint) :=
  do r <- from_radix_le p buf radix; Ret (option_map (from_biguint s) r).

(** * to_radix_digits_le *)
(** `while big_base.data.len() < target_len { big_base = &big_base * &big_base; big_power *= 2; }` *)
Fixpoint square_loop (f : nat) (p : radix_params) (target : Z) (big_base : list Z) (big_power : nat)
  : outcome (list Z * nat) :=
  if cmp_eval (rp_target_cmp p) (zlen big_base) target then
    match f with
    | O => OutOfFuel
    | S f' => do bb <- k_mul big_base big_base;
              square_loop f' p target bb (2 * big_power)%nat
    end
  else Ret (big_base, big_power).

(** `for _ in 0..big_power { let (q, mut r) = div_rem_digit(big_r, base); big_r = q; <power digits> }` *)
Fixpoint inner_big (n power : nat) (radix base : Z) (big_r : list Z) : outcome (list Z) :=
  match n with
  | O => Ret []
  | S n' =>
      do x <- k_divdig big_r base;
      let '(q, r) := x in
      do rest <- inner_big n' power radix base q;
      Ret (emit_fixed power radix r ++ rest)
  end.

(** `while digits > big_base { let (q, big_r) = digits.div_rem(&big_base); digits = q; … }` *)
Fixpoint outer_big (f : nat) (p : radix_params) (big_power power : nat) (radix base : Z)
         (big_base digits : list Z) : outcome (list Z * list Z) :=
  do c <- cmp_slice digits big_base;
  if cmp_eval_c (rp_big_cmp p) c then
    match f with
    | O => OutOfFuel
    | S f' =>
        do x <- k_divrem digits big_base;
        let '(q, big_r) := x in
        do out <- inner_big big_power power radix base big_r;
        do rest <- outer_big f' p big_power power radix base big_base q;
        let '(res, d) := rest in
        Ret (out ++ res, d)
    end
  else Ret ([], digits).

(** `while digits.data.len() > 1 { let (q, mut r) = div_rem_digit(digits, base); …; digits = q; }` *)
Fixpoint small_loop (f : nat) (p : radix_params) (power : nat) (radix base : Z) (digits : list Z)
  : outcome (list Z * list Z) :=
  if cmp_eval (rp_small_cmp p) (zlen digits) (rp_small_len p) then
    match f with
    | O => OutOfFuel
    | S f' =>
        do x <- k_divdig digits base;
        let '(q, r) := x in
        do rest <- small_loop f' p power radix base q;
        let '(res, d) := rest in
        Ret (emit_fixed power radix r ++ res, d)
    end
  else Ret ([], digits).

Definition to_radix_digits_le (p : radix_params) (u : list Z) (radix : Z) : outcome (list Z) :=
  do _ <- assert_ (negb (zlen u =? 0) && negb (rpow2 radix)) (Internal 617);
  do bp <- get_radix_base p radix;                 (* FAST_DIV_WIDE = true on x86_64 *)
  let '(base, power) := bp in
  let pw := Z.to_nat power in
  do st <-
    (if cmp_eval (rp_big_len_cmp p) (zlen u) (rp_big_len p) then
       let big_base0 := if base =? 0 then [] else [base] in   (* BigUint::from(base) *)
       let target_len := Z.sqrt (zlen u) in                   (* usize::sqrt: floor root *)
       do sq <- square_loop (length u) p target_len big_base0 1%nat;
       let '(big_base, big_power) := sq in
       outer_big (length u) p big_power pw radix base big_base u
     else Ret ([], u));
  let '(res1, digits1) := st in
  do st2 <- small_loop (2 * length digits1) p pw radix base digits1;
  let '(res2, digits2) := st2 in
  match digits2 with
  | [] => Panic (Internal 620)                     (* `digits.data[0]` *)
  | d0 :: _ =>
      do head <- emit_while 64 radix d0;
      Ret (res1 ++ res2 ++ head)
  end.

(** * to_radix_le (no radix assertion in the source: "radix must be in the range 2...256") *)
Definition to_radix_le (p : radix_params) (u : list Z) (radix : Z) : outcome (list Z) :=
  match u with
  | [] => Ret [0]
  | _ =>
      if rpow2 radix then
        do bits <- ilog2 radix;
        do _ <- assert_ (negb (bits =? 0)) (Internal 621);    (* `big_digit::BITS % bits` *)
        if 64 mod bits =? 0 then k_to_bits u bits else k_to_inexact u bits
      else to_radix_digits_le p u radix
  end.
Definition to_radix_be (p : radix_params) (u : list Z) (radix : Z) : outcome (list Z) :=
  do v <- to_radix_le p u radix; Ret (rev v).

(** BigInt::to_radix_be/le *)
Definition ito_radix_le (p : radix_params) (x : bigint) (radix : Z) : outcome (sign * list Z) :=
  do v <- to_radix_le p (mag x) radix; Ret (sg x, v).
Definition ito_radix_be (p : radix_params) (x : bigint) (radix : Z) : outcome (sign * list Z) :=
  do v <- to_radix_be p (mag x) radix; Ret (sg x, v).

End Kernels.
