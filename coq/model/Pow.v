(* Pow.v — executable model of src/biguint/power.rs (pow_impl!, Pow<&BigUint>) and
   src/bigint/power.rs (powsign, pow_impl!).  Definitions only.
   The big multiplication is a Section parameter [bmul] (instantiated with Mul.umul). *)
From BigNum Require Import Base PgrLoop.
Open Scope Z_scope.

(** Source-extracted decision points of `pow_impl!` (tools/extractors/pgr.py). *)
Record pow_params := {
  pw_strip_bit : Z;      (* `while exp & 1 == 0`        -> 0 *)
  pw_exit : Z;           (* `if exp == 1 { return base }` -> 1 *)
  pw_loop_cmp : cmpop;   (* `while exp > 1`             -> Cgt *)
  pw_loop_bound : Z;     (*                             -> 1 *)
  pw_acc_bit : Z;        (* `if exp & 1 == 1`           -> 1 *)
  pw_zero : Z;           (* `if exp == 0 { return one }` -> 0 *)
}.

Definition pgr_is_zero (l : list Z) : bool := match l with [] => true | _ => false end.
(** `self.data[..] == [1]` *)
Definition pgr_is_one (l : list Z) : bool := match l with [d] => d =? 1 | _ => false end.
(** `ToPrimitive::to_u64 / to_u128` (64-bit digits) *)
Definition pgr_to_u64 (l : list Z) : option Z :=
  match l with [] => Some 0 | [d] => Some d | _ => None end.
Definition pgr_to_u128 (l : list Z) : option Z :=
  match l with [] => Some 0 | [d] => Some d | [d0; d1] => Some (d0 + B * d1) | _ => None end.
(** `Integer::is_even / is_odd for BigUint`: only the first digit *)
Definition pgr_is_even (l : list Z) : bool := match l with [] => true | d :: _ => Z.even d end.
Definition pgr_is_odd (l : list Z) : bool := negb (pgr_is_even l).

(** number of loop iterations is bounded by the exponent's bit width (<= 128) *)
Definition pow_fuel : positive := 130%positive.

Section WithBigOps.
Variable bmul : list Z -> list Z -> outcome (list Z).
Variable p : pow_params.

(** `while exp & 1 == 0 { base = &base * &base; exp >>= 1; }` *)
Definition pow_strip_step (st : list Z * Z) : outcome ((list Z * Z) + (list Z * Z)) :=
  let '(base, exp) := st in
  if Z.land exp 1 =? pw_strip_bit p then
    do b2 <- bmul base base; Ret (inl (b2, Z.shiftr exp 1))
  else Ret (inr (base, exp)).

(** `while exp > 1 { exp >>= 1; base = &base * &base; if exp & 1 == 1 { acc *= &base; } }` *)
Definition pow_acc_step (st : list Z * list Z * Z) : outcome ((list Z * list Z * Z) + list Z) :=
  let '(base, acc, exp) := st in
  if cmp_eval (pw_loop_cmp p) exp (pw_loop_bound p) then
    let exp' := Z.shiftr exp 1 in
    do b2 <- bmul base base;
    do acc' <- (if Z.land exp' 1 =? pw_acc_bit p then bmul acc b2 else Ret acc);
    Ret (inl (b2, acc', exp'))
  else Ret (inr acc).

(** `impl Pow<$T> for BigUint` ($T in u8..u128, usize; [e] is the exponent's value) *)
Definition upow_prim (x : list Z) (e : Z) : outcome (list Z) :=
  if e =? pw_zero p then Ret [1]
  else
    do r <- run_loop pow_strip_step pow_fuel (x, e);
    let '(base, e1) := r in
    if e1 =? pw_exit p then Ret base
    else run_loop pow_acc_step pow_fuel (base, base, e1).

(** `impl Pow<$T> for &BigUint` (and `BigUint::pow(&self, u32)`) *)
Definition upow_prim_ref (x : list Z) (e : Z) : outcome (list Z) :=
  if e =? 0 then Ret [1] else upow_prim x e.

(** `impl Pow<&BigUint> for BigUint` *)
Definition upow_big (x e : list Z) : outcome (list Z) :=
  if pgr_is_one x || pgr_is_zero e then Ret [1]
  else if pgr_is_zero x then Ret []
  else match pgr_to_u64 e with
       | Some k => upow_prim x k
       | None => match pgr_to_u128 e with
                 | Some k => upow_prim x k
                 | None => Panic MemOverflow
                 end
       end.

(** `impl Pow<&BigUint> for &BigUint` *)
Definition upow_big_ref (x e : list Z) : outcome (list Z) :=
  if pgr_is_one x || pgr_is_zero e then Ret [1]
  else if pgr_is_zero x then Ret []
  else upow_big x e.

(** `powsign(sign, other)`: [ez] = other.is_zero(), [eo] = other.is_odd() *)
Definition powsign (s : sign) (ez eo : bool) : sign :=
  if ez then Plus
  else if negb (sign_eqb s Minus) || eo then s
  else sign_neg s.

(** BigInt forms: by-value base calls `self.data.pow(rhs)`, by-reference base `Pow::pow(&self.data, rhs)` *)
Definition ipow_prim (x : bigint) (e : Z) : outcome bigint :=
  do m <- upow_prim (mag x) e;
  Ret (from_biguint (powsign (sg x) (e =? 0) (Z.odd e)) m).
Definition ipow_prim_ref (x : bigint) (e : Z) : outcome bigint :=
  do m <- upow_prim_ref (mag x) e;
  Ret (from_biguint (powsign (sg x) (e =? 0) (Z.odd e)) m).
Definition ipow_big (x : bigint) (e : list Z) : outcome bigint :=
  do m <- upow_big (mag x) e;
  Ret (from_biguint (powsign (sg x) (pgr_is_zero e) (pgr_is_odd e)) m).
Definition ipow_big_ref (x : bigint) (e : list Z) : outcome bigint :=
  do m <- upow_big_ref (mag x) e;
  Ret (from_biguint (powsign (sg x) (pgr_is_zero e) (pgr_is_odd e)) m).
End WithBigOps.
