(* Prim.v — executable model of the primitive integer / float conversions of
   src/biguint/convert.rs, src/bigint/convert.rs (and the num-traits 0.2.19 default bodies of
   ToPrimitive / FromPrimitive they fall back to).  Definitions only.
   64-bit digits (x86_64): big_digit::BITS = 64, usize/isize = 64 bit.
   Floats are IEEE-754 bit patterns held in [Z] (f64: 64 bit, f32: 32 bit). *)
From BigNum Require Import Base ShiftCore AddSub.
Open Scope Z_scope.

(** * Source-extracted decision points (tools/extractors/prim.py) *)
Inductive hb_operand := HDigitBits | HBitsWant | HOther.

Record prim_params := {
  pp_hb_sub    : hb_operand;               (* high_bits_to_u64: `bits -= digit_bits;`               *)
  pp_hb_width  : Z;                        (* `Ord::min(64 - ret_bits, digit_bits)`                  *)
  pp_hb_shr    : hb_operand * hb_operand;  (* `>> (digit_bits - bits_want)`                          *)
  pp_hb_guard  : hb_operand * hb_operand;  (* `if digit_bits - bits_want != 0`                       *)
  pp_hb_mask_c : Z;                        (* `<< (64 - (digit_bits - bits_want) as u32)`            *)
  pp_hb_mask   : hb_operand * hb_operand;
  pp_f64_cmp   : cmpop;  pp_f64_max : Z;   (* to_f64: `exponent > f64::MAX_EXP as u64`               *)
  pp_f32_cmp   : cmpop;  pp_f32_max : Z;   (* to_f32: `exponent > f32::MAX_EXP as u64`               *)
  pp_i64_edge  : Z;                        (* BigInt::to_i64:  `let m: u64 = 1 << 63;`               *)
  pp_i128_edge : Z;                        (* BigInt::to_i128: `let m: u128 = 1 << 127;`             *)
  pp_u64_cmp   : cmpop;  pp_u64_lim : Z;   (* BigUint::to_u64:  `if bits >= 64`                      *)
  pp_u128_cmp  : cmpop;  pp_u128_lim : Z;  (* BigUint::to_u128: `if bits >= 128`                     *)
}.

Definition chk (c : bool) (site : Z) : outcome unit := assert_ c (Internal site).

(** * Primitive integer types and the num-traits casts between them *)
Inductive ptype := U8 | U16 | U32 | U64 | Usize | U128 | I8 | I16 | I32 | I64 | Isize | I128.

Definition pt_bits (t : ptype) : Z :=
  match t with
  | U8 | I8 => 8 | U16 | I16 => 16 | U32 | I32 => 32
  | U64 | I64 | Usize | Isize => 64 | U128 | I128 => 128
  end.
Definition pt_signed (t : ptype) : bool :=
  match t with I8 | I16 | I32 | I64 | Isize | I128 => true | _ => false end.
Definition pt_min (t : ptype) : Z := if pt_signed t then - 2 ^ (pt_bits t - 1) else 0.
Definition pt_max (t : ptype) : Z :=
  if pt_signed t then 2 ^ (pt_bits t - 1) - 1 else 2 ^ pt_bits t - 1.

(** `x as T` between integer types: two's-complement wrap. *)
Definition as_cast (t : ptype) (x : Z) : Z :=
  let m := 2 ^ pt_bits t in
  let r := x mod m in
  if pt_signed t && (2 ^ (pt_bits t - 1) <=? r) then r - m else r.

(** num-traits cast.rs: impl_to_primitive_{int,uint}_to_{int,uint}!  ($SrcT -> $DstT) *)
Definition prim_to (src dst : ptype) (x : Z) : option Z :=
  let max := as_cast src (pt_max dst) in
  let fits :=
    match pt_signed src, pt_signed dst with
    | true, true =>
        let min := as_cast src (pt_min dst) in
        (pt_bits src <=? pt_bits dst) || ((min <=? x) && (x <=? max))
    | true, false =>
        (0 <=? x) && ((pt_bits src <=? pt_bits dst) || (x <=? max))
    | false, true => (pt_bits src <? pt_bits dst) || (x <=? max)
    | false, false => (pt_bits src <=? pt_bits dst) || (x <=? max)
    end in
  if fits then Some (as_cast dst x) else None.

Definition obind {A C} (x : option A) (f : A -> option C) : option C :=
  match x with Some a => f a | None => None end.

(** * BigUint -> integer *)

(** `ToPrimitive::to_u64 for BigUint`: `ret += u64::from(i) << bits; bits += BITS` (bits : u8) *)
Fixpoint to_u64_loop (p : prim_params) (l : list Z) (ret bits : Z) : outcome (option Z) :=
  match l with
  | [] => Ret (Some ret)
  | d :: r =>
      if cmp_eval (pp_u64_cmp p) bits (pp_u64_lim p) then Ret None
      else
        do _ <- chk ((0 <=? bits) && (bits <? 64)) 801;     (* `<< bits` *)
        let sh := (d * 2 ^ bits) mod B in
        do _ <- chk (ret + sh <? B) 802;                     (* `ret +=`  *)
        do _ <- chk (bits + 64 <? 256) 803;                  (* `bits += BITS` on u8 *)
        to_u64_loop p r (ret + sh) (bits + 64)
  end.
Definition uto_u64 (p : prim_params) (v : list Z) : outcome (option Z) := to_u64_loop p v 0 0.

(** `to_u128`: `ret |= u128::from(i) << bits;` *)
Fixpoint to_u128_loop (p : prim_params) (l : list Z) (ret bits : Z) : outcome (option Z) :=
  match l with
  | [] => Ret (Some ret)
  | d :: r =>
      if cmp_eval (pp_u128_cmp p) bits (pp_u128_lim p) then Ret None
      else
        do _ <- chk ((0 <=? bits) && (bits <? 128)) 804;
        let sh := (d * 2 ^ bits) mod BB in
        do _ <- chk (bits + 64 <? 256) 805;
        to_u128_loop p r (Z.lor ret sh) (bits + 64)
  end.
Definition uto_u128 (p : prim_params) (v : list Z) : outcome (option Z) := to_u128_loop p v 0 0.

Definition omap_opt {A C} (f : A -> option C) (x : outcome (option A)) : outcome (option C) :=
  do r <- x; Ret (obind r f).

(** all twelve `to_T` of `impl ToPrimitive for BigUint` (to_i64/to_i128/to_u64/to_u128 are
    overridden, the rest are the num-traits defaults through to_i64 / to_u64). *)
Definition uto (p : prim_params) (t : ptype) (v : list Z) : outcome (option Z) :=
  match t with
  | U64 => uto_u64 p v
  | U128 => uto_u128 p v
  | I64 => omap_opt (prim_to U64 I64) (uto_u64 p v)
  | I128 => omap_opt (prim_to U128 I128) (uto_u128 p v)
  | U8 | U16 | U32 | Usize => omap_opt (prim_to U64 t) (uto_u64 p v)
  | I8 | I16 | I32 | Isize =>
      omap_opt (prim_to I64 t) (omap_opt (prim_to U64 I64) (uto_u64 p v))
  end.

(** * BigInt -> integer *)
Definition neg_chk (t : ptype) (x : Z) (site : Z) : outcome Z :=
  do _ <- chk (negb (x =? pt_min t)) site; Ret (- x).

Definition ito_i64 (p : prim_params) (x : bigint) : outcome (option Z) :=
  match sg x with
  | Plus => omap_opt (prim_to U64 I64) (uto_u64 p (mag x))
  | NoSign => Ret (Some 0)
  | Minus =>
      do r <- uto_u64 p (mag x);
      match r with
      | None => Ret None
      | Some n =>
          let m := (1 * 2 ^ pp_i64_edge p) mod B in
          match n ?= m with
          | Lt => do r <- neg_chk I64 (as_cast I64 n) 806; Ret (Some r)
          | Eq => Ret (Some (pt_min I64))
          | Gt => Ret None
          end
      end
  end.

Definition ito_i128 (p : prim_params) (x : bigint) : outcome (option Z) :=
  match sg x with
  | Plus => omap_opt (prim_to U128 I128) (uto_u128 p (mag x))
  | NoSign => Ret (Some 0)
  | Minus =>
      do r <- uto_u128 p (mag x);
      match r with
      | None => Ret None
      | Some n =>
          let m := (1 * 2 ^ pp_i128_edge p) mod BB in
          match n ?= m with
          | Lt => do r <- neg_chk I128 (as_cast I128 n) 807; Ret (Some r)
          | Eq => Ret (Some (pt_min I128))
          | Gt => Ret None
          end
      end
  end.

Definition ito_u64 (p : prim_params) (x : bigint) : outcome (option Z) :=
  match sg x with Plus => uto_u64 p (mag x) | NoSign => Ret (Some 0) | Minus => Ret None end.
Definition ito_u128 (p : prim_params) (x : bigint) : outcome (option Z) :=
  match sg x with Plus => uto_u128 p (mag x) | NoSign => Ret (Some 0) | Minus => Ret None end.

Definition ito (p : prim_params) (t : ptype) (x : bigint) : outcome (option Z) :=
  match t with
  | I64 => ito_i64 p x
  | I128 => ito_i128 p x
  | U64 => ito_u64 p x
  | U128 => ito_u128 p x
  | I8 | I16 | I32 | Isize => omap_opt (prim_to I64 t) (ito_i64 p x)
  | U8 | U16 | U32 | Usize => omap_opt (prim_to U64 t) (ito_u64 p x)
  end.

(** * TryFrom<&Big*> / TryFrom<Big*> for primitives: the owned form returns the original *)
Definition utry_into (p : prim_params) (t : ptype) (v : list Z) : outcome (option Z) := uto p t v.
Definition utry_into_owned (p : prim_params) (t : ptype) (v : list Z) : outcome (Z + list Z) :=
  do r <- utry_into p t v;
  Ret (match r with Some x => inl x | None => inr v end).
Definition itry_into (p : prim_params) (t : ptype) (x : bigint) : outcome (option Z) := ito p t x.
Definition itry_into_owned (p : prim_params) (t : ptype) (x : bigint) : outcome (Z + bigint) :=
  do r <- itry_into p t x;
  Ret (match r with Some y => inl y | None => inr x end).

(** * integer -> BigUint *)

(** `From<u64>`: `while n != 0 { push(n as BigDigit); n = (n >> 1) >> (BITS - 1); }` *)
Fixpoint from_u64_loop (fuel : nat) (n : Z) (acc : list Z) : outcome (list Z) :=
  if n =? 0 then Ret acc
  else match fuel with
       | O => OutOfFuel
       | S f => from_u64_loop f ((n / 2) / 2 ^ 63) (acc ++ [n mod B])
       end.
Definition ufrom_u64 (n : Z) : outcome (list Z) := from_u64_loop 2 n [].

(** `From<u128>`: `while n != 0 { push(n as BigDigit); n >>= BITS; }` *)
Fixpoint from_u128_loop (fuel : nat) (n : Z) (acc : list Z) : outcome (list Z) :=
  if n =? 0 then Ret acc
  else match fuel with
       | O => OutOfFuel
       | S f => from_u128_loop f (n / 2 ^ 64) (acc ++ [n mod B])
       end.
Definition ufrom_u128 (n : Z) : outcome (list Z) := from_u128_loop 3 n [].

(** `From<uN> for BigUint` (u8/u16/u32/usize go through `n as u64`); unsigned types only *)
Definition ufrom (t : ptype) (n : Z) : outcome (list Z) :=
  match t with
  | U128 => ufrom_u128 n
  | _ => ufrom_u64 (as_cast U64 n)
  end.
Definition ufrom_bool (b : bool) : list Z := if b then [1] else [].

Definition osome {A} (x : outcome A) : outcome (option A) := do r <- x; Ret (Some r).

(** `impl FromPrimitive for BigUint` + num-traits defaults *)
Definition ufrom_i64 (n : Z) : outcome (option (list Z)) :=
  if 0 <=? n then osome (ufrom_u64 (as_cast U64 n)) else Ret None.
Definition ufrom_i128 (n : Z) : outcome (option (list Z)) :=
  if 0 <=? n then osome (ufrom_u128 (as_cast U128 n)) else Ret None.
Definition ufrom_prim (t : ptype) (n : Z) : outcome (option (list Z)) :=
  match t with
  | I64 => ufrom_i64 n
  | I128 => ufrom_i128 n
  | U64 => osome (ufrom_u64 n)
  | U128 => osome (ufrom_u128 n)
  | Isize => match prim_to Isize I64 n with Some m => ufrom_i64 m | None => Ret None end
  | I8 | I16 | I32 => ufrom_i64 n
  | Usize => match prim_to Usize U64 n with Some m => osome (ufrom_u64 m) | None => Ret None end
  | U8 | U16 | U32 => osome (ufrom_u64 n)
  end.
(** `TryFrom<iN> for BigUint` = from_iN(value).ok_or(..); `ToBigUint for T` = from_T(self) *)
Definition utry_from_prim := ufrom_prim.

(** * integer -> BigInt *)
Definition ifrom_u64 (n : Z) : outcome bigint :=
  if 0 <? n then do d <- ufrom_u64 n; Ret (mkint Plus d) else Ret (mkint NoSign []).
Definition ifrom_u128 (n : Z) : outcome bigint :=
  if 0 <? n then do d <- ufrom_u128 n; Ret (mkint Plus d) else Ret (mkint NoSign []).
Definition ifrom_i64 (n : Z) : outcome bigint :=
  if 0 <=? n then ifrom_u64 (as_cast U64 n)
  else
    let u0 := pt_max U64 - as_cast U64 n in
    do _ <- chk (u0 + 1 <=? pt_max U64) 810;      (* `u64::MAX - (n as u64) + 1` *)
    do d <- ufrom_u64 (u0 + 1); Ret (mkint Minus d).
Definition ifrom_i128 (n : Z) : outcome bigint :=
  if 0 <=? n then ifrom_u128 (as_cast U128 n)
  else
    let u0 := pt_max U128 - as_cast U128 n in
    do _ <- chk (u0 + 1 <=? pt_max U128) 809;
    do d <- ufrom_u128 (u0 + 1); Ret (mkint Minus d).
(** `From<T> for BigInt`, all twelve types *)
Definition ifrom (t : ptype) (n : Z) : outcome bigint :=
  match t with
  | I64 => ifrom_i64 n
  | I128 => ifrom_i128 n
  | U64 => ifrom_u64 n
  | U128 => ifrom_u128 n
  | I8 | I16 | I32 | Isize => ifrom_i64 (as_cast I64 n)
  | U8 | U16 | U32 | Usize => ifrom_u64 (as_cast U64 n)
  end.
Definition ifrom_bool (b : bool) : bigint := if b then mkint Plus [1] else mkint NoSign [].
(** `impl FromPrimitive for BigInt` + defaults *)
Definition ifrom_prim (t : ptype) (n : Z) : outcome (option bigint) :=
  match t with
  | I64 => osome (ifrom_i64 n)
  | I128 => osome (ifrom_i128 n)
  | U64 => osome (ifrom_u64 n)
  | U128 => osome (ifrom_u128 n)
  | Isize => match prim_to Isize I64 n with Some m => osome (ifrom_i64 m) | None => Ret None end
  | I8 | I16 | I32 => osome (ifrom_i64 n)
  | Usize => match prim_to Usize U64 n with Some m => osome (ifrom_u64 m) | None => Ret None end
  | U8 | U16 | U32 => osome (ifrom_u64 n)
  end.

(** * BigUint <-> BigInt *)
(** `From<BigUint> for BigInt`, `ToBigInt for BigUint` *)
Definition ifrom_biguint (v : list Z) : bigint :=
  match v with [] => mkint NoSign [] | _ => mkint Plus v end.
(** `ToBigUint for BigInt`, `TryFrom<&BigInt> for BigUint` *)
Definition ito_biguint (x : bigint) : option (list Z) :=
  match sg x with Plus => Some (mag x) | NoSign => Some [] | Minus => None end.
(** `TryFrom<BigInt> for BigUint`: Err(original) if negative, else `value.data` *)
Definition itry_into_biguint_owned (x : bigint) : list Z + bigint :=
  match sg x with Minus => inr x | _ => inl (mag x) end.

(** * bits(), fls *)
Definition bitlen (n : Z) : Z := if n <=? 0 then 0 else Z.log2 n + 1.
Definition lz64 (d : Z) : Z := 64 - bitlen d.                 (* u64::leading_zeros *)
Definition ubits (v : list Z) : Z :=
  match rev v with
  | [] => 0
  | d :: _ => Z.of_nat (length v) * 64 - lz64 d
  end.
Definition fls64 (m : Z) : Z := 64 - lz64 m.                   (* fls::<u64> *)

(** * high_bits_to_u64 *)
Definition hb_val (o : hb_operand) (digit_bits bits_want : Z) : Z :=
  match o with HDigitBits => digit_bits | HBitsWant => bits_want | HOther => -1 end.
Definition hb_diff (pr : hb_operand * hb_operand) (digit_bits bits_want : Z) : Z :=
  hb_val (fst pr) digit_bits bits_want - hb_val (snd pr) digit_bits bits_want.

(** the `for d in v.data.iter().rev()` loop; [l] is most-significant first *)
Fixpoint hb_loop (p : prim_params) (l : list Z) (bits ret ret_bits : Z) : outcome Z :=
  match l with
  | [] => Ret ret
  | d :: r =>
      do _ <- chk (1 <=? bits) 811;                                  (* `bits - 1` *)
      let digit_bits := (bits - 1) mod 64 + 1 in
      do _ <- chk (ret_bits <=? pp_hb_width p) 812;                  (* `64 - ret_bits` *)
      let bits_want := Z.min (pp_hb_width p - ret_bits) digit_bits in
      do ret1 <-
        (if bits_want =? 0 then Ret ret
         else
           do ret' <- (if bits_want =? 64 then Ret ret
                       else do _ <- chk (bits_want <? 64) 813;       (* `ret <<= bits_want` *)
                            Ret ((ret * 2 ^ bits_want) mod B));
           let sh := hb_diff (pp_hb_shr p) digit_bits bits_want in
           do _ <- chk ((0 <=? sh) && (sh <? 64)) 814;               (* `>> (digit_bits - bits_want)` *)
           Ret (Z.lor ret' (d / 2 ^ sh)));
      let g := hb_diff (pp_hb_guard p) digit_bits bits_want in
      do _ <- chk (0 <=? g) 815;
      do ret2 <-
        (if g =? 0 then Ret ret1
         else
           let inner := hb_diff (pp_hb_mask p) digit_bits bits_want in
           do _ <- chk (0 <=? inner) 816;
           let sh := pp_hb_mask_c p - as_cast U32 inner in
           do _ <- chk ((0 <=? sh) && (sh <? 64)) 817;               (* `<< (64 - ..)` *)
           let masked := (d * 2 ^ sh) mod B in
           Ret (Z.lor ret1 (if masked =? 0 then 0 else 1)));
      let sub := hb_val (pp_hb_sub p) digit_bits bits_want in
      do _ <- chk ((0 <=? sub) && (sub <=? bits)) 818;               (* `bits -= ..` *)
      hb_loop p r (bits - sub) ret2 (ret_bits + bits_want)
  end.

Definition high_bits_to_u64 (p : prim_params) (v : list Z) : outcome Z :=
  match v with
  | [] => Ret 0
  | [d] => Ret d
  | _ => hb_loop p (rev v) (ubits v) 0 0
  end.

(** * IEEE-754 binary formats as bit patterns *)
Record ffmt := { f_prec : Z; f_ew : Z }.
Definition F64 := {| f_prec := 53; f_ew := 11 |}.
Definition F32 := {| f_prec := 24; f_ew := 8 |}.
Definition f_fb (f : ffmt) : Z := f_prec f - 1.                       (* fraction bits *)
Definition f_bias (f : ffmt) : Z := 2 ^ (f_ew f - 1) - 1.
Definition f_emask (f : ffmt) : Z := 2 ^ f_ew f - 1.                   (* all-ones exponent *)
Definition f_signbit (f : ffmt) : Z := 2 ^ (f_fb f + f_ew f).
Definition f_inf (f : ffmt) : Z := f_emask f * 2 ^ f_fb f.
(** the x86 default NaN ("real indefinite") produced by 0 * inf *)
Definition f_nan_indef (f : ffmt) : Z := f_signbit f + f_inf f + 2 ^ (f_fb f - 1).
Definition f_sign (f : ffmt) (b : Z) : Z := b / f_signbit f.
Definition f_expf (f : ffmt) (b : Z) : Z := (b / 2 ^ f_fb f) mod 2 ^ f_ew f.
Definition f_frac (f : ffmt) (b : Z) : Z := b mod 2 ^ f_fb f.
Definition f_neg (f : ffmt) (b : Z) : Z :=
  if b <? f_signbit f then b + f_signbit f else b - f_signbit f.

(** hardware `m as f64` / `m as f32` for an unsigned integer [m]: IEEE round-to-nearest-even
    to [prec] significant bits, as a normalised pair (mantissa in [2^(prec-1), 2^prec),
    exponent) — (0,0) for zero.  MODELLED dependency behaviour (validated by the runs). *)
Definition uint_to_float_rne (prec m : Z) : Z * Z :=
  if m <=? 0 then (0, 0)
  else
    let L := Z.log2 m + 1 in
    if L <=? prec then (m * 2 ^ (prec - L), L - prec)
    else
      let sh := L - prec in
      let q := m / 2 ^ sh in
      let r := m mod 2 ^ sh in
      let half := 2 ^ (sh - 1) in
      let q' := if (half <? r) || ((r =? half) && Z.odd q) then q + 1 else q in
      if q' =? 2 ^ prec then (2 ^ (prec - 1), sh + 1) else (q', sh).
Definition u64_to_f64_rne : Z -> Z * Z := uint_to_float_rne 53.
Definition u64_to_f32_rne : Z -> Z * Z := uint_to_float_rne 24.

(** `x * 2.0.powi(k)` for x = mant * 2^e (normalised, from the cast above) and 0 <= k:
    powi is exact (inf beyond the format); the product is exact or overflows to inf;
    0 * inf is the default NaN. *)
Definition float_mul_pow2 (f : ffmt) (me : Z * Z) (k : Z) : Z :=
  let '(m, e) := me in
  if m =? 0 then (if f_bias f <? k then f_nan_indef f else 0)
  else
    let E := e + k + f_fb f + f_bias f in
    if f_emask f <=? E then f_inf f
    else E * 2 ^ f_fb f + (m - 2 ^ f_fb f).

(** `to_f64` / `to_f32` for BigUint *)
Definition uto_float (f : ffmt) (cmp : cmpop) (max : Z) (p : prim_params) (v : list Z) : outcome Z :=
  do mant <- high_bits_to_u64 p v;
  let b := ubits v in
  do _ <- chk (fls64 mant <=? b) 820;                                  (* `bits() - fls(mantissa)` *)
  let exponent := b - fls64 mant in
  if cmp_eval cmp exponent max then Ret (f_inf f)
  else
    let k := as_cast I32 exponent in
    do _ <- chk (0 <=? k) 821;                   (* negative powi: not modelled (unreachable) *)
    Ret (float_mul_pow2 f (uint_to_float_rne (f_prec f) mant) k).
Definition uto_f64 (p : prim_params) := uto_float F64 (pp_f64_cmp p) (pp_f64_max p) p.
Definition uto_f32 (p : prim_params) := uto_float F32 (pp_f32_cmp p) (pp_f32_max p) p.

(** BigInt: `if self.sign == Minus { -n } else { n }` *)
Definition ito_float (f : ffmt) (g : prim_params -> list Z -> outcome Z)
           (p : prim_params) (x : bigint) : outcome Z :=
  do n <- g p (mag x);
  Ret (match sg x with Minus => f_neg f n | _ => n end).
Definition ito_f64 := ito_float F64 uto_f64.
Definition ito_f32 := ito_float F32 uto_f32.

(** * float -> BigUint / BigInt *)
Definition f_is_finite (f : ffmt) (b : Z) : bool := negb (f_expf f b =? f_emask f).
Definition f_is_nan (f : ffmt) (b : Z) : bool := (f_expf f b =? f_emask f) && negb (f_frac f b =? 0).
Definition f_is_zero (f : ffmt) (b : Z) : bool := b mod f_signbit f =? 0.
(** `f64::trunc` (MODELLED): clear the fraction bits below the binary point *)
Definition f_trunc (f : ffmt) (b : Z) : Z :=
  let E := f_expf f b in
  if E <? f_bias f then f_sign f b * f_signbit f
  else if f_bias f + f_fb f <=? E then b
  else let k := f_fb f - (E - f_bias f) in b - b mod 2 ^ k.
(** `n >= 0.0` *)
Definition f_ge0 (f : ffmt) (b : Z) : bool :=
  negb (f_is_nan f b) && ((f_sign f b =? 0) || f_is_zero f b).

(** num-traits float.rs `integer_decode_f64` *)
Definition integer_decode_f64 (bits : Z) : Z * Z * Z :=
  let sign := if bits / 2 ^ 63 =? 0 then 1 else -1 in
  let exponent := Z.land (bits / 2 ^ 52) 2047 in
  let mantissa :=
    if exponent =? 0 then (Z.land bits 4503599627370495 * 2) mod B
    else Z.lor (Z.land bits 4503599627370495) 4503599627370496 in
  (mantissa, exponent - (1023 + 52), sign).

(** `f64::from(f32)` — exact widening (MODELLED) *)
Definition f32_to_f64 (b : Z) : Z :=
  let s := f_sign F32 b in
  let E := f_expf F32 b in
  let fr := f_frac F32 b in
  let body :=
    if E =? 255 then 2047 * 2 ^ 52 + fr * 2 ^ 29
    else if E =? 0 then
      (if fr =? 0 then 0
       else let L := Z.log2 fr + 1 in
            (L - 150 + 1023) * 2 ^ 52 + (fr * 2 ^ (53 - L) - 2 ^ 52))
    else (E - 127 + 1023) * 2 ^ 52 + fr * 2 ^ 29 in
  s * 2 ^ 63 + body.

(** `FromPrimitive::from_f64 for BigUint` *)
Definition ufrom_f64 (b : Z) : outcome (option (list Z)) :=
  if negb (f_is_finite F64 b) then Ret None
  else
    let n := f_trunc F64 b in
    if f_is_zero F64 n then Ret (Some [])
    else
      let '(mantissa, exponent, sign) := integer_decode_f64 n in
      if sign =? -1 then Ret None
      else
        do ret <- ufrom_u64 mantissa;
        match exponent ?= 0 with
        | Gt => Ret (Some (ushl ret exponent))
        | Eq => Ret (Some ret)
        | Lt => Ret (Some (ushr ret (- exponent)))
        end.
(** default `from_f32(n) = from_f64(From::from(n))` *)
Definition ufrom_f32 (b : Z) : outcome (option (list Z)) := ufrom_f64 (f32_to_f64 b).

(** `FromPrimitive::from_f64 for BigInt` *)
Definition ifrom_f64 (b : Z) : outcome (option bigint) :=
  if f_ge0 F64 b then
    do r <- ufrom_f64 b; Ret (option_map ifrom_biguint r)
  else
    do r <- ufrom_f64 (f_neg F64 b);
    Ret (option_map (fun x => ineg (ifrom_biguint x)) r).
Definition ifrom_f32 (b : Z) : outcome (option bigint) := ifrom_f64 (f32_to_f64 b).
