(* Mul.v — executable model of src/biguint/multiplication.rs and src/bigint/multiplication.rs
   (64-bit digit arms).  Definitions only; proofs are in proofs/MulProofs*.v.

   Internal sites (range 200-299):
     201/202 u128 overflow in mac_with_carry      203 mac_digit: split_at_mut(b.len())
     204 mac_digit: final-carry assert_eq         205/206 mac3: acc[nz..] after stripping b / c
     207 long multiplication: acc[i..]            208 half-Karatsuba: acc[m2..]
     209 Karatsuba: y.split_at(b)                 210-212 Karatsuba: acc[b..], acc[b*2..], acc[b..]
     213 Toom-3: y.len() - y0_len / y[..y0_len]   214 BigInt >> on a Minus value with empty magnitude
     215/216 Toom-3 recomposition acc[i*j..]      217 u128 overflow in mul_with_carry
   `usize` arithmetic on lengths (x.len()*2, x1.len()+y1.len()+1, ...) is not range-checked:
   lengths are < 2^63 for any allocatable vector. *)
From BigNum Require Import Base AddSub ShiftCore Div.
Open Scope Z_scope.

(** Source-extracted parameters (tools/extractors/mul.py). *)
Record mul_params := {
  mp_as : addsub_params;      (* add2 / sub2 / BigInt +,- used inside mac3 *)
  mp_swap_cmp : cmpop;        (* `if b.len() < c.len() { (b, c) } else { (c, b) }` *)
  mp_long_cmp : cmpop;        (* `x.len() <= 32` *)
  mp_long_max : Z;
  mp_half_mul : Z;            (* `x.len() * 2 <= y.len()` *)
  mp_half_cmp : cmpop;
  mp_kara_cmp : cmpop;        (* `x.len() <= 256` *)
  mp_kara_max : Z;
  mp_half_split : Z;          (* `let m2 = y.len() / 2` *)
  mp_kara_split : Z;          (* `let b = x.len() / 2` *)
  mp_kara_extra : Z;          (* `let len = x1.len() + y1.len() + 1` *)
  mp_toom_div : Z;            (* `let i = y.len() / 3 + 1` *)
  mp_toom_extra : Z;
  mp_prod_extra : Z;          (* mul3: `let len = x.len() + y.len() + 1` *)
}.

Definition lenZ (l : list Z) : Z := Z.of_nat (length l).

(** * Row routines *)

(** `x as BigDigit` and `x >> big_digit::BITS` on a u128 *)
Definition mask64 : Z := 18446744073709551615.
Definition lo64 (s : Z) : Z := Z.land s mask64.
Definition hi64 (s : Z) : Z := Z.shiftr s 64.

(** `mac_with_carry(a, b, c, &mut acc) -> lo`; returns (lo, new acc).  u128 arithmetic. *)
Definition mac_with_carry (a b c acc : Z) : outcome (Z * Z) :=
  let s1 := acc + a in
  do _ <- assert_ (s1 <? BB) (Internal 201);
  let s2 := s1 + b * c in
  do _ <- assert_ (s2 <? BB) (Internal 202);
  Ret (lo64 s2, hi64 s2).

(** `mul_with_carry(a, b, &mut acc) -> lo` *)
Definition mul_with_carry (a b acc : Z) : outcome (Z * Z) :=
  let s := acc + a * b in
  do _ <- assert_ (s <? BB) (Internal 217);
  Ret (lo64 s, hi64 s).

(** the zip loop of mac_digit: each a_lo digit becomes mac_with_carry(a, b, c, carry) *)
Fixpoint mac_loop (c carry : Z) (a b : list Z) : outcome (list Z * Z) :=
  match a, b with
  | x :: a', y :: b' =>
      do r <- mac_with_carry x y c carry;
      let '(lo, carry1) := r in
      do r2 <- mac_loop c carry1 a' b';
      let '(rest, cf) := r2 in Ret (lo :: rest, cf)
  | _, _ => Ret (a, carry)
  end.

(** `mac_digit(acc, b, c)`: acc += b * c *)
Definition mac_digit (p : mul_params) (acc b : list Z) (c : Z) : outcome (list Z) :=
  if c =? 0 then Ret acc
  else
    do _ <- assert_ (length b <=? length acc)%nat (Internal 203);
    let n := length b in
    let a_lo := firstn n acc in
    let a_hi := skipn n acc in
    do r <- mac_loop c 0 a_lo b;
    let '(lo, carry) := r in
    let carry_hi := hi64 carry in     (* big_digit::from_doublebigdigit *)
    let carry_lo := lo64 carry in
    do r2 <- (if carry_hi =? 0 then add2c (mp_as p) a_hi [carry_lo]
              else add2c (mp_as p) a_hi [carry_hi; carry_lo]);
    let '(hi, final_carry) := r2 in
    do _ <- assert_ (final_carry =? 0) (Internal 204);
    Ret (lo ++ hi).

(** * Pieces of mac3 *)

(** `if let Some(&0) = b.first() { if let Some(nz) = b.iter().position(|&d| d != 0) {..} else { return } }`
    [Some nz]: continue with b[nz..] (nz = 0 when nothing is stripped); [None]: return. *)
Fixpoint low_zeros (l : list Z) : option nat :=
  match l with
  | [] => Some O
  | d :: r =>
      if d =? 0 then
        match r with
        | [] => None
        | _ => option_map S (low_zeros r)
        end
      else Some O
  end.

(** Long multiplication: `for (i, xi) in x.iter().enumerate() { mac_digit(&mut acc[i..], y, *xi) }`.
    [acc] is the current slice acc[i..]. *)
Fixpoint long_mul (p : mul_params) (acc x y : list Z) : outcome (list Z) :=
  match x with
  | [] => Ret acc
  | xi :: x' =>
      do a1 <- mac_digit p acc y xi;
      match x' with
      | [] => Ret a1
      | _ => match a1 with
             | [] => Panic (Internal 207)
             | d :: rest => do r <- long_mul p rest x' y; Ret (d :: r)
             end
      end
  end.

(** `sub_sign(a, b)` *)
Definition sub_sign (ap : addsub_params) (a b : list Z) : outcome (sign * list Z) :=
  let a := strip a in
  let b := strip b in
  do c <- cmp_slice a b;
  match c with
  | Gt => do r <- sub2 ap a b; Ret (Plus, strip r)
  | Lt => do r <- sub2 ap b a; Ret (Minus, strip r)
  | Eq => Ret (NoSign, [])
  end.

(** `f(&mut acc[k..], ..)`: apply [f] to the slice, keep the prefix; site [s] = index out of range *)
Definition on_slice (k : nat) (s : Z) (acc : list Z) (f : list Z -> outcome (list Z)) : outcome (list Z) :=
  do _ <- assert_ (k <=? length acc)%nat (Internal s);
  do t <- f (skipn k acc);
  Ret (firstn k acc ++ t).

Definition mrec := list Z -> list Z -> list Z -> outcome (list Z).

(** Half-Karatsuba *)
Definition half_split (p : mul_params) (y : list Z) : nat := Z.to_nat (lenZ y / mp_half_split p).
Definition half_kara (rec : mrec) (p : mul_params) (acc x y : list Z) : outcome (list Z) :=
  let m2 := half_split p y in
  let low2 := firstn m2 y in
  let high2 := skipn m2 y in
  do a1 <- rec acc x low2;
  on_slice m2 208 a1 (fun s => rec s x high2).

(** Karatsuba: the additions of p2 and p0 (shared with the cost model) *)
Definition kara_split (p : mul_params) (x : list Z) : nat := Z.to_nat (lenZ x / mp_kara_split p).
Definition kara_len (p : mul_params) (x1 y1 : list Z) : nat :=
  Z.to_nat (lenZ x1 + lenZ y1 + mp_kara_extra p).
Definition kara_add_p2 (ap : addsub_params) (b : nat) (acc p2 : list Z) : outcome (list Z) :=
  let p2n := strip p2 in
  do acc1 <- on_slice b 210 acc (fun s => add2 ap s p2n);
  on_slice (b * 2) 211 acc1 (fun s => add2 ap s p2n).
Definition kara_add_p0 (ap : addsub_params) (b : nat) (acc p0 : list Z) : outcome (list Z) :=
  let p0n := strip p0 in
  do acc1 <- add2 ap acc p0n;
  on_slice b 212 acc1 (fun s => add2 ap s p0n).

Definition karatsuba (rec : mrec) (p : mul_params) (acc x y : list Z) : outcome (list Z) :=
  let ap := mp_as p in
  let b := kara_split p x in
  let x0 := firstn b x in let x1 := skipn b x in
  do _ <- assert_ (b <=? length y)%nat (Internal 209);
  let y0 := firstn b y in let y1 := skipn b y in
  let len := kara_len p x1 y1 in
  do p2 <- rec (zeros len) x1 y1;
  do acc2 <- kara_add_p2 ap b acc p2;
  do p0 <- rec (zeros len) x0 y0;
  do acc4 <- kara_add_p0 ap b acc2 p0;
  do j0 <- sub_sign ap x1 x0;
  do j1 <- sub_sign ap y1 y0;
  match sign_mul (fst j0) (fst j1) with
  | Plus =>
      do p1 <- rec (zeros len) (snd j0) (snd j1);
      on_slice b 212 acc4 (fun s => sub2 ap s (strip p1))
  | Minus => on_slice b 212 acc4 (fun s => rec s (snd j0) (snd j1))
  | NoSign => Ret acc4
  end.

(** * scalar_mul and the BigUint product dispatch (parametrised by the mac3 to use) *)

Fixpoint mul_loop (b carry : Z) (a : list Z) : outcome (list Z * Z) :=
  match a with
  | [] => Ret ([], carry)
  | x :: a' =>
      do r <- mul_with_carry x b carry;
      let '(lo, c1) := r in
      do r2 <- mul_loop b c1 a';
      let '(rest, cf) := r2 in Ret (lo :: rest, cf)
  end.

(** `b.is_power_of_two()`, `b.trailing_zeros()` of a power of two *)
Definition is_pow2 (b : Z) : bool := (0 <? b) && (2 ^ Z.log2 b =? b).

Definition scalar_mul (a : list Z) (b : Z) : outcome (list Z) :=
  if b =? 0 then Ret []
  else if b =? 1 then Ret a
  else if is_pow2 b then Ret (ushl a (Z.log2 b))
  else
    do r <- mul_loop b 0 a;
    let '(a', carry) := r in
    Ret (if carry =? 0 then a' else a' ++ [lo64 carry]).

Definition mul3_with (m3 : mrec) (p : mul_params) (x y : list Z) : outcome (list Z) :=
  let len := Z.to_nat (lenZ x + lenZ y + mp_prod_extra p) in
  do r <- m3 (zeros len) x y;
  Ret (strip r).

(** `impl_mul!`: match (&*self.data, &*other.data) *)
Definition umul_with (m3 : mrec) (p : mul_params) (a b : list Z) : outcome (list Z) :=
  match a, b with
  | [], _ | _, [] => Ret []
  | _, [d] => scalar_mul a d
  | [d], _ => scalar_mul b d
  | _, _ => mul3_with m3 p a b
  end.

(** `impl Mul<BigInt> for BigInt`: from_biguint(self.sign * other.sign, x * y) *)
Definition imul_with (m3 : mrec) (p : mul_params) (x y : bigint) : outcome bigint :=
  do m <- umul_with m3 p (mag x) (mag y);
  Ret (from_biguint (sign_mul (sg x) (sg y)) m).

(** * Toom-3: BigInt helper operations *)

(** `bigint_from_slice`: BigInt::from(biguint_from_vec(slice.to_vec())) *)
Definition bigint_from_slice (l : list Z) : bigint := from_biguint Plus (strip l).

(** `BigInt * 2` (i32 -> Positive(2u32) -> from_biguint(sign, data * 2u32) -> scalar_mul) *)
Definition imul_small (x : bigint) (k : Z) : outcome bigint :=
  do m <- scalar_mul (mag x) k; Ret (from_biguint (sg x) m).

(** `BigInt / 3u32`: from_biguint(sign, div_rem_digit(data, 3).0)  ([Div.div_rem_digit]) *)
Definition idiv_small (x : bigint) (k : Z) : outcome bigint :=
  do r <- div_rem_digit (mag x) k; Ret (from_biguint (sg x) (fst r)).

(** `BigInt >> 1` with shr_round_down (trailing_zeros < 1  <=>  lowest digit odd) *)
Definition ishr1 (ap : addsub_params) (x : bigint) : outcome bigint :=
  do rd <- match sg x with
           | Minus => match mag x with
                      | [] => Panic (Internal 214)
                      | d :: _ => Ret (Z.odd d)
                      end
           | _ => Ret false
           end;
  let data := ushr (mag x) 1 in
  do data' <- (if (rd : bool) then uadd_digit ap data 1 else Ret data);
  Ret (from_biguint (sg x) data').

(** `&BigInt << 1` *)
Definition ishl1 (x : bigint) : bigint := from_biguint (sg x) (ushl (mag x) 1).

(** Evaluation at 0, inf, 1, -1, -2: returns i and the five operand pairs in the order in
    which the Rust multiplies them: r0, r4, r1, r2, r3.  (The Rust interleaves these
    additions with the products; they are independent of the products.) *)
Definition toom_i (p : mul_params) (y : list Z) : nat :=
  Z.to_nat (lenZ y / mp_toom_div p + mp_toom_extra p).

Definition toom3_eval (p : mul_params) (x y : list Z)
  : outcome (list (bigint * bigint)) :=
  let ap := mp_as p in
  let i := toom_i p y in
  let x0_len := Nat.min (length x) i in
  let x1_len := Nat.min (length x - x0_len) i in
  let y0_len := i in
  do _ <- assert_ (y0_len <=? length y)%nat (Internal 213);
  let y1_len := Nat.min (length y - y0_len) i in
  let x0 := bigint_from_slice (firstn x0_len x) in
  let x1 := bigint_from_slice (firstn x1_len (skipn x0_len x)) in
  let x2 := bigint_from_slice (skipn (x0_len + x1_len) x) in
  let y0 := bigint_from_slice (firstn y0_len y) in
  let y1 := bigint_from_slice (firstn y1_len (skipn y0_len y)) in
  let y2 := bigint_from_slice (skipn (y0_len + y1_len) y) in
  do pp <- iadd ap x0 x2;
  do q <- iadd ap y0 y2;
  do p2 <- isub ap pp x1;
  do q2 <- isub ap q y1;
  do px <- iadd ap pp x1;
  do qy <- iadd ap q y1;
  do a1 <- iadd ap p2 x2;
  do a2 <- imul_small a1 2;
  do a3 <- isub ap a2 x0;
  do b1 <- iadd ap q2 y2;
  do b2 <- imul_small b1 2;
  do b3 <- isub ap b2 y0;
  Ret [(x0, y0); (x2, y2); (px, qy); (p2, q2); (a3, b3)].

(** Bodrato interpolation; returns [r0; comp1; comp2; comp3; r4] (coefficients w0..w4). *)
Definition toom3_interp (ap : addsub_params) (r0 r4 r1 r2 r3 : bigint) : outcome (list bigint) :=
  do t1 <- isub ap r3 r1;
  do comp3 <- idiv_small t1 3;
  do t2 <- isub ap r1 r2;
  do comp1 <- ishr1 ap t2;
  do comp2 <- isub ap r2 r0;
  do t3 <- isub ap comp2 comp3;
  do t4 <- ishr1 ap t3;
  do comp3' <- iadd ap t4 (ishl1 r4);
  do t5 <- isub ap comp1 r4;
  do comp2' <- iadd ap comp2 t5;
  do comp1' <- isub ap comp1 comp3';
  Ret [r0; comp1'; comp2'; comp3'; r4].

(** `for (j, result) in [..].iter().enumerate().rev()`: [ws] in processing order with its j *)
Fixpoint toom3_recompose (ap : addsub_params) (i : nat) (acc : list Z) (ws : list (nat * bigint))
  : outcome (list Z) :=
  match ws with
  | [] => Ret acc
  | (j, w) :: rest =>
      do acc1 <- match sg w with
                 | Plus => on_slice (i * j) 215 acc (fun s => add2 ap s (mag w))
                 | Minus => on_slice (i * j) 216 acc (fun s => sub2 ap s (mag w))
                 | NoSign => Ret acc
                 end;
      toom3_recompose ap i acc1 rest
  end.

Definition toom3_finish (p : mul_params) (acc y : list Z) (rs : list bigint) : outcome (list Z) :=
  match rs with
  | [r0; r4; r1; r2; r3] =>
      do ws <- toom3_interp (mp_as p) r0 r4 r1 r2 r3;
      toom3_recompose (mp_as p) (toom_i p y) acc (rev (combine (seq 0 5) ws))
  | _ => Panic (Internal 299)
  end.

Fixpoint mapM {A C} (f : A -> outcome C) (l : list A) : outcome (list C) :=
  match l with
  | [] => Ret []
  | a :: r => do c <- f a; do cs <- mapM f r; Ret (c :: cs)
  end.

Definition toom3 (rec : mrec) (p : mul_params) (acc x y : list Z) : outcome (list Z) :=
  do pts <- toom3_eval p x y;
  do rs <- mapM (fun xy => imul_with rec p (fst xy) (snd xy)) pts;
  toom3_finish p acc y rs.

(** * mac3 *)

(** the regime dispatch, after low-zero stripping *)
Definition mac3_body (rec : mrec) (p : mul_params) (acc b c : list Z) : outcome (list Z) :=
  let '(x, y) := if cmp_eval (mp_swap_cmp p) (lenZ b) (lenZ c) then (b, c) else (c, b) in
  if cmp_eval (mp_long_cmp p) (lenZ x) (mp_long_max p) then long_mul p acc x y
  else if cmp_eval (mp_half_cmp p) (lenZ x * mp_half_mul p) (lenZ y) then half_kara rec p acc x y
  else if cmp_eval (mp_kara_cmp p) (lenZ x) (mp_kara_max p) then karatsuba rec p acc x y
  else toom3 rec p acc x y.

(** low-zero stripping around a body *)
Definition mac3_strip (body : list Z -> list Z -> list Z -> outcome (list Z))
           (acc b c : list Z) : outcome (list Z) :=
  match low_zeros b with
  | None => Ret acc
  | Some nb =>
      on_slice nb 205 acc (fun acc1 =>
        match low_zeros c with
        | None => Ret acc1
        | Some nc => on_slice nc 206 acc1 (fun acc2 => body acc2 (skipn nb b) (skipn nc c))
        end)
  end.

Fixpoint mac3 (fuel : nat) (p : mul_params) (acc b c : list Z) : outcome (list Z) :=
  match fuel with
  | O => OutOfFuel
  | S f => mac3_strip (mac3_body (mac3 f p) p) acc b c
  end.

(** enough fuel: every recursive call strictly decreases |b| + |c| *)
Definition fuel3 (b c : list Z) : nat := S (length b + length c).

Definition mul3 (p : mul_params) (x y : list Z) : outcome (list Z) :=
  mul3_with (mac3 (fuel3 x y) p) p x y.

(** * Public API *)

(** `&BigUint * &BigUint` (all four value/reference forms share impl_mul!) *)
Definition umul (p : mul_params) (a b : list Z) : outcome (list Z) :=
  umul_with (mac3 (fuel3 a b) p) p a b.

(** `impl_mul_assign!` *)
Definition umul_assign (p : mul_params) (a b : list Z) : outcome (list Z) :=
  match a, b with
  | [], _ => Ret a
  | _, [] => Ret []
  | _, [d] => scalar_mul a d
  | [d], _ => scalar_mul b d
  | _, _ => mul3 p a b
  end.

(** `MulAssign<u32>` / `MulAssign<u64>` (64-bit digits): scalar_mul(self, other as BigDigit) *)
Definition umul_digit (a : list Z) (s : Z) : outcome (list Z) := scalar_mul a s.

(** `MulAssign<u128>` *)
Definition umul_u128 (p : mul_params) (a : list Z) (s : Z) : outcome (list Z) :=
  if s <? B then scalar_mul a s
  else mul3 p a [s mod B; s / B].

Definition uchecked_mul (p : mul_params) (a b : list Z) : outcome (option (list Z)) :=
  do r <- umul p a b; Ret (Some r).

(** BigInt *)
Definition imul (p : mul_params) (x y : bigint) : outcome bigint :=
  imul_with (mac3 (fuel3 (mag x) (mag y)) p) p x y.

(** `impl_mul_assign!` for BigInt *)
Definition imul_assign (p : mul_params) (x y : bigint) : outcome bigint :=
  do m <- umul_assign p (mag x) (mag y);
  Ret (match m with
       | [] => mkint NoSign m
       | _ => mkint (sign_mul (sg x) (sg y)) m
       end).

Definition ichecked_mul (p : mul_params) (x y : bigint) : outcome (option bigint) :=
  do r <- imul p x y; Ret (Some r).

(** `Mul<u32/u64/u128> for BigInt`: from_biguint(self.sign, self.data * other);
    [wide] selects the u128 path *)
Definition imul_uscalar (p : mul_params) (wide : bool) (x : bigint) (s : Z) : outcome bigint :=
  do m <- (if wide then umul_u128 p (mag x) s else umul_digit (mag x) s);
  Ret (from_biguint (sg x) m).

(** `Mul<i32/i64/i128> for BigInt`: Positive(u) => self * u, Negative(u) => -self * u *)
Definition imul_iscalar (p : mul_params) (wide : bool) (x : bigint) (s : Z) : outcome bigint :=
  if 0 <=? s then imul_uscalar p wide x s
  else imul_uscalar p wide (ineg x) (- s).
