(* RadixText.v — executable model of the text side of C06:
   to_str_radix_reversed / to_str_radix (BigUint, BigInt), Num::from_str_radix (both types),
   FromStr, parse_bytes, and the five fmt impls (Display, Binary, Octal, LowerHex, UpperHex)
   over a model of core::fmt::Formatter::pad_integral.  Definitions only.
   Text is a list of bytes ([Z] in 0..255).  Internal sites 650-699.

   MODELLED, NOT VERIFIED (dependency code of the standard library, validated by the
   correspondence runs only): [utf8_valid] (core::str::from_utf8 acceptance),
   [pad_integral]/[padding] (library/core/src/fmt/mod.rs), [ascii_upper]
   (str::make_ascii_uppercase). *)
From BigNum Require Import Base AddSub Radix.
Open Scope Z_scope.

Inductive parse_err := PEmpty | PInvalid.
Inductive parse_result (A : Type) := POk (a : A) | PErr (e : parse_err).
Arguments POk {A} a.
Arguments PErr {A} e.
Definition pr_map {A C} (f : A -> C) (r : parse_result A) : parse_result C :=
  match r with POk a => POk (f a) | PErr e => PErr e end.
Definition pr_opt {A} (r : parse_result A) : option A :=
  match r with POk a => Some a | PErr _ => None end.

(** ASCII codes used below *)
Definition ch_plus : Z := 43.
Definition ch_minus : Z := 45.
Definition ch_zero : Z := 48.

(** the `match b { b'0'..=b'9' => b - b'0', b'a'..=b'z' => b - b'a' + 10, … , _ => u8::MAX }`
    with the arms read from the source *)
Fixpoint arm_digit (arms : list (Z * Z * Z)) (b : Z) : Z :=
  match arms with
  | [] => 255
  | (lo, hi, add) :: r => if (lo <=? b) && (b <=? hi) then b - lo + add else arm_digit r b
  end.

(** the `for b in s.bytes()` loop of BigUint::from_str_radix *)
Fixpoint parse_digits (p : radix_params) (radix : Z) (s : list Z) : parse_result (list Z) :=
  match s with
  | [] => POk []
  | b :: r =>
      if b =? rp_skip p then parse_digits p radix r
      else
        let d := arm_digit (rp_arms p) b in
        if d <? radix mod 256 then pr_map (cons d) (parse_digits p radix r)
        else PErr PInvalid
  end.

(** core::str::from_utf8 acceptance (Unicode 15, table 3-7 "well-formed UTF-8 byte sequences") *)
Definition in_rng (lo hi b : Z) : bool := (lo <=? b) && (b <=? hi).
Fixpoint utf8_valid_fuel (f : nat) (s : list Z) : bool :=
  match f with
  | O => match s with [] => true | _ => false end
  | S f' =>
      match s with
      | [] => true
      | b0 :: r =>
          if b0 <? 128 then utf8_valid_fuel f' r
          else if in_rng 194 223 b0 then
            match r with b1 :: r' => in_rng 128 191 b1 && utf8_valid_fuel f' r' | _ => false end
          else if in_rng 224 239 b0 then
            match r with
            | b1 :: b2 :: r' =>
                (if b0 =? 224 then in_rng 160 191 b1
                 else if b0 =? 237 then in_rng 128 159 b1
                 else in_rng 128 191 b1)
                && in_rng 128 191 b2 && utf8_valid_fuel f' r'
            | _ => false
            end
          else if in_rng 240 244 b0 then
            match r with
            | b1 :: b2 :: b3 :: r' =>
                (if b0 =? 240 then in_rng 144 191 b1
                 else if b0 =? 244 then in_rng 128 143 b1
                 else in_rng 128 191 b1)
                && in_rng 128 191 b2 && in_rng 128 191 b3 && utf8_valid_fuel f' r'
            | _ => false
            end
          else false
      end
  end.
Definition utf8_valid (s : list Z) : bool := utf8_valid_fuel (length s) s.

(** `make_ascii_uppercase` *)
Definition ascii_upper (s : list Z) : list Z :=
  map (fun b => if in_rng 97 122 b then b - 32 else b) s.

(** * Formatter flags and pad_integral *)
Inductive align := ALeft | ARight | ACenter.
Record fmt_flags := {
  ff_plus : bool;          (* `+` *)
  ff_alt : bool;           (* `#` *)
  ff_zero : bool;          (* `0` (sign-aware zero pad) *)
  ff_width : Z;            (* minimum width, 0 when absent (FormattingOptions.width : u16) *)
  ff_fill : Z;             (* fill byte (ASCII fills only), default ' ' *)
  ff_align : option align;
}.

(** Formatter::padding: (pre, post) fill counts *)
Definition padding (fl : fmt_flags) (pad : Z) (default : align) : Z * Z :=
  let a := match ff_align fl with Some a => a | None => default end in
  let left := match a with ALeft => 0 | ARight => pad | ACenter => pad / 2 end in
  (left, pad - left).
Definition fill_n (c n : Z) : list Z := repeat c (Z.to_nat n).

(** Formatter::pad_integral(is_nonnegative, prefix, buf) — the bytes written *)
Definition pad_integral (fl : fmt_flags) (nonneg : bool) (prefix buf : list Z) : list Z :=
  let sign := if negb nonneg then [ch_minus] else if ff_plus fl then [ch_plus] else [] in
  let pre := if ff_alt fl then prefix else [] in
  let width := zlen buf + zlen sign + zlen pre in
  let min := ff_width fl in
  if width >=? min then sign ++ pre ++ buf
  else if ff_zero fl then
    (* fill := '0', align := Right; sign and prefix go before the padding *)
    sign ++ pre ++ fill_n ch_zero (min - width) ++ buf
  else
    let '(l, r) := padding fl (min - width) ARight in
    fill_n (ff_fill fl) l ++ sign ++ pre ++ buf ++ fill_n (ff_fill fl) r.

Inductive fmt_kind := FDisplay | FBinary | FOctal | FLowerHex | FUpperHex.
Definition fmt_radix (k : fmt_kind) : Z :=
  match k with FDisplay => 10 | FBinary => 2 | FOctal => 8 | FLowerHex | FUpperHex => 16 end.
Definition fmt_prefix (k : fmt_kind) : list Z :=
  match k with
  | FDisplay => []
  | FBinary => [48; 98]      (* "0b" *)
  | FOctal => [48; 111]      (* "0o" *)
  | FLowerHex | FUpperHex => [48; 120]   (* "0x" *)
  end.

Section Kernels.
Variable k_mac : Z -> Z -> Z -> Z -> outcome (Z * Z).
Variable k_mul : list Z -> list Z -> outcome (list Z).
Variable k_divrem : list Z -> list Z -> outcome (list Z * list Z).
Variable k_divdig : list Z -> Z -> outcome (list Z * Z).
Variable k_from_bits k_from_inexact k_to_bits k_to_inexact : list Z -> Z -> outcome (list Z).

Let to_radix_le_k := to_radix_le k_mul k_divrem k_divdig k_to_bits k_to_inexact.
Let from_radix_digits_be_k := from_radix_digits_be k_mac.
Let from_pow2_k := from_pow2 k_from_bits k_from_inexact.

(** * to_str_radix_reversed, to_str_radix *)
(** `for r in &mut res { debug_assert!(u32::from( *r) < radix); if *r < 10 { *r += b'0' } else { *r += b'a' - 10 } }` *)
Fixpoint ascii_map (p : radix_params) (radix : Z) (l : list Z) : outcome (list Z) :=
  match l with
  | [] => Ret []
  | r :: t =>
      do _ <- assert_ (r <? radix) (Internal 650);
      let c := if r <? rp_ten p then r + rp_digit0 p else r + (rp_lettera p - rp_ten p) in
      do _ <- assert_ (c <? 256) (Internal 651);
      do t' <- ascii_map p radix t;
      Ret (c :: t')
  end.

Definition to_str_radix_reversed (p : radix_params) (u : list Z) (radix : Z) : outcome (list Z) :=
  do _ <- assert_ ((rp_str_lo p <=? radix) && (radix <=? rp_str_hi p)) BadRadix;
  match u with
  | [] => Ret [ch_zero]
  | _ => do res <- to_radix_le_k p u radix; ascii_map p radix res
  end.

(** BigUint::to_str_radix *)
Definition to_str_radix (p : radix_params) (u : list Z) (radix : Z) : outcome (list Z) :=
  do v <- to_str_radix_reversed p u radix; Ret (rev v).
(** BigInt::to_str_radix *)
Definition ito_str_radix (p : radix_params) (x : bigint) (radix : Z) : outcome (list Z) :=
  do v <- to_str_radix_reversed p (mag x) radix;
  let v1 := if sign_eqb (sg x) Minus then v ++ [ch_minus] else v in
  Ret (rev v1).

(** * from_str_radix *)
(** `if let Some(tail) = s.strip_prefix(c) { if !tail.starts_with('+') { s = tail } }` *)
Definition strip_sign (c : Z) (s : list Z) : bool * list Z :=
  match s with
  | b :: tail =>
      if b =? c then
        (true, match tail with t0 :: _ => if t0 =? ch_plus then s else tail | [] => tail end)
      else (false, s)
  | [] => (false, s)
  end.

(** <BigUint as Num>::from_str_radix *)
Definition from_str_radix (p : radix_params) (s : list Z) (radix : Z)
  : outcome (parse_result (list Z)) :=
  do _ <- assert_ ((rp_str_lo p <=? radix) && (radix <=? rp_str_hi p)) BadRadix;
  let s1 := snd (strip_sign ch_plus s) in
  match s1 with
  | [] => Ret (PErr PEmpty)
  | b0 :: _ =>
      if b0 =? rp_skip p then Ret (PErr PInvalid)      (* "Must lead with a real digit!" *)
      else
        match parse_digits p radix s1 with
        | PErr e => Ret (PErr e)
        | POk v =>
            do res <- (if rpow2 radix then from_pow2_k (rev v) radix
                       else from_radix_digits_be_k p v radix);
            Ret (POk res)
        end
  end.

(** <BigInt as Num>::from_str_radix *)
Definition ifrom_str_radix (p : radix_params) (s : list Z) (radix : Z)
  : outcome (parse_result bigint) :=
  let '(neg, s1) := strip_sign ch_minus s in
  let sign := if neg then Minus else Plus in
  do r <- from_str_radix p s1 radix;
  Ret (pr_map (from_biguint sign) r).

(** FromStr *)
Definition from_str (p : radix_params) (s : list Z) := from_str_radix p s 10.
Definition ifrom_str (p : radix_params) (s : list Z) := ifrom_str_radix p s 10.

(** parse_bytes: `let s = str::from_utf8(buf).ok()?; from_str_radix(s, radix).ok()` *)
Definition parse_bytes (p : radix_params) (buf : list Z) (radix : Z) : outcome (option (list Z)) :=
  if utf8_valid buf then do r <- from_str_radix p buf radix; Ret (pr_opt r) else Ret None.
Definition iparse_bytes (p : radix_params) (buf : list Z) (radix : Z) : outcome (option bigint) :=
  if utf8_valid buf then do r <- ifrom_str_radix p buf radix; Ret (pr_opt r) else Ret None.

(** * fmt impls: `f.pad_integral(nonneg, prefix, &self.to_str_radix(radix))` *)
Definition fmt_u (p : radix_params) (k : fmt_kind) (fl : fmt_flags) (u : list Z) : outcome (list Z) :=
  do s <- to_str_radix p u (fmt_radix k);
  let s1 := match k with FUpperHex => ascii_upper s | _ => s end in
  Ret (pad_integral fl true (fmt_prefix k) s1).
Definition fmt_i (p : radix_params) (k : fmt_kind) (fl : fmt_flags) (x : bigint) : outcome (list Z) :=
  do s <- to_str_radix p (mag x) (fmt_radix k);
  let s1 := match k with FUpperHex => ascii_upper s | _ => s end in
  Ret (pad_integral fl (negb (sign_eqb (sg x) Minus)) (fmt_prefix k) s1).

End Kernels.
