(* Base.v — shared definitions: digits, value, canonical form, outcome monad, signs.
   Stdlib only.  Everything here is independent of /repo. *)
From Coq Require Export List ZArith Lia Bool.
Export ListNotations.
Open Scope Z_scope.

Ltac Zify.zify_post_hook ::= Z.div_mod_to_equations.

(** * Digits *)
Definition B : Z := 2 ^ 64.
Definition BB : Z := 2 ^ 128.

Lemma B_pos : 0 < B. Proof. reflexivity. Qed.
Lemma B_val : B = 18446744073709551616. Proof. reflexivity. Qed.
Lemma BB_val : BB = B * B. Proof. reflexivity. Qed.
Global Opaque B BB.

Definition digit (d : Z) : Prop := 0 <= d < B.
Definition digitb (d : Z) : bool := (0 <=? d) && (d <? B).
Definition wf (l : list Z) : Prop := Forall digit l.
Definition wfb (l : list Z) : bool := forallb digitb l.

Fixpoint val (l : list Z) : Z :=
  match l with [] => 0 | d :: r => d + B * val r end.

(** [strip] = [BigUint::normalize]: drop high (trailing, little-endian) zero digits. *)
Fixpoint strip (l : list Z) : list Z :=
  match l with
  | [] => []
  | d :: r => match strip r with
              | [] => if d =? 0 then [] else [d]
              | r' => d :: r'
              end
  end.

Definition canon (l : list Z) : Prop := wf l /\ strip l = l.
Definition canonb (l : list Z) : bool :=
  wfb l && match rev l with [] => true | d :: _ => negb (d =? 0) end.

(** Canonical digits of a non-negative integer (fuel = number of digits). *)
Fixpoint enc_fuel (f : nat) (n : Z) : list Z :=
  match f with
  | O => []
  | S f' => if n <=? 0 then [] else (n mod B) :: enc_fuel f' (n / B)
  end.
Definition ndigits (n : Z) : nat := Z.to_nat (Z.log2 n / 64 + 1).
Definition enc (n : Z) : list Z := enc_fuel (ndigits n) n.

(** Fixed-width little-endian digits (wrapping): the low [k] digits of [n]. *)
Fixpoint digits_n (k : nat) (n : Z) : list Z :=
  match k with O => [] | S k' => (n mod B) :: digits_n k' (n / B) end.

Definition zeros (k : nat) : list Z := repeat 0 k.

(** * Outcomes *)
Inductive panic_kind :=
| DivZero | SubUnderflow | NegShift | BadRadix | ZeroModulus | NegExponent
| ImagRoot | ZeroRoot | EmptyRange | MemOverflow
| Internal (site : Z).

Inductive outcome (A : Type) :=
| Ret (a : A) | Panic (k : panic_kind) | OutOfFuel.
Arguments Ret {A} a.
Arguments Panic {A} k.
Arguments OutOfFuel {A}.

Definition bind {A C} (x : outcome A) (f : A -> outcome C) : outcome C :=
  match x with Ret a => f a | Panic k => Panic k | OutOfFuel => OutOfFuel end.
Notation "'do' x <- e ; f" := (bind e (fun x => f))
  (at level 200, x pattern, e at level 100, f at level 200, right associativity).
Definition assert_ (c : bool) (k : panic_kind) : outcome unit :=
  if c then Ret tt else Panic k.
Definition omap {A C} (f : A -> C) (x : outcome A) : outcome C :=
  do a <- x; Ret (f a).

(** * Signs and BigInt *)
Inductive sign := Minus | NoSign | Plus.
Definition sign_eqb (a b : sign) : bool :=
  match a, b with Minus, Minus | NoSign, NoSign | Plus, Plus => true | _, _ => false end.
Definition sign_neg (s : sign) : sign :=
  match s with Minus => Plus | NoSign => NoSign | Plus => Minus end.
Definition sign_mul (a b : sign) : sign :=
  match a, b with
  | NoSign, _ | _, NoSign => NoSign
  | Plus, Plus | Minus, Minus => Plus
  | _, _ => Minus
  end.
Definition sign_z (s : sign) : Z := match s with Minus => -1 | NoSign => 0 | Plus => 1 end.
Definition z_sign (z : Z) : sign :=
  match z with Z0 => NoSign | Zpos _ => Plus | Zneg _ => Minus end.

Record bigint := mkint { sg : sign; mag : list Z }.
Definition ival (x : bigint) : Z := sign_z (sg x) * val (mag x).
Definition icanon (x : bigint) : Prop :=
  canon (mag x) /\ (sg x = NoSign <-> mag x = []).
Definition ienc (z : Z) : bigint := mkint (z_sign z) (enc (Z.abs z)).

(** [BigInt::from_biguint]: a NoSign request clears the magnitude, a zero magnitude
    forces NoSign. *)
Definition from_biguint (s : sign) (m : list Z) : bigint :=
  match s with
  | NoSign => mkint NoSign []
  | _ => match m with [] => mkint NoSign [] | _ => mkint s m end
  end.

(** Comparison operators as data (for source-extracted decision points). *)
Inductive cmpop := Clt | Cle | Ceq | Cne | Cge | Cgt.
Definition cmp_eval (c : cmpop) (a b : Z) : bool :=
  match c with
  | Clt => a <? b | Cle => a <=? b | Ceq => a =? b
  | Cne => negb (a =? b) | Cge => a >=? b | Cgt => a >? b
  end.
Definition cmpop_eqb (a b : cmpop) : bool :=
  match a, b with
  | Clt, Clt | Cle, Cle | Ceq, Ceq | Cne, Cne | Cge, Cge | Cgt, Cgt => true
  | _, _ => false
  end.
