(* X86.v — the fragment of x86-64 used by the two inline-asm loops:
   syntax (produced by tools/extract.py from the asm! templates) and a total
   small-step semantics with an access trace.  Registers are the named asm operands;
   the pointer operands {a},{b} are symbolic regions that no instruction form can write. *)
From BigNum Require Import Base.
Open Scope Z_scope.

Inductive reg := Ridx | Rsize | Rc | RA (i : Z) | RB (i : Z) | Rother (i : Z).
Inductive region := MA | MB.
Inductive instr :=
| Clc
| Label (l : Z)
| Load (r : reg) (m : region) (off : Z)      (* mov r, qword ptr [m + 8*idx + 8*off] *)
| Store (m : region) (off : Z) (r : reg)     (* mov qword ptr [m + 8*idx + 8*off], r *)
| Adc (d s : reg)
| Sbb (d s : reg)
| Inc (r : reg)
| Dec (r : reg)
| Jnz (l : Z)
| Setc (r : reg)
| Unknown (code : Z).

Definition reg_eqb (a b : reg) : bool :=
  match a, b with
  | Ridx, Ridx | Rsize, Rsize | Rc, Rc => true
  | RA i, RA j | RB i, RB j | Rother i, Rother j => i =? j
  | _, _ => false
  end.
Definition region_eqb (a b : region) : bool :=
  match a, b with MA, MA | MB, MB => true | _, _ => false end.
Definition instr_eqb (a b : instr) : bool :=
  match a, b with
  | Clc, Clc => true
  | Label i, Label j | Jnz i, Jnz j | Unknown i, Unknown j => i =? j
  | Load r m o, Load r' m' o' => reg_eqb r r' && region_eqb m m' && (o =? o')
  | Store m o r, Store m' o' r' => reg_eqb r r' && region_eqb m m' && (o =? o')
  | Adc d s, Adc d' s' | Sbb d s, Sbb d' s' => reg_eqb d d' && reg_eqb s s'
  | Inc r, Inc r' | Dec r, Dec r' | Setc r, Setc r' => reg_eqb r r'
  | _, _ => false
  end.
Fixpoint prog_eqb (p q : list instr) : bool :=
  match p, q with
  | [], [] => true
  | i :: p', j :: q' => instr_eqb i j && prog_eqb p' q'
  | _, _ => false
  end.

Lemma reg_eqb_eq a b : reg_eqb a b = true -> a = b.
Proof. destruct a, b; simpl; try discriminate; auto; intros H; apply Z.eqb_eq in H; congruence. Qed.
Lemma region_eqb_eq a b : region_eqb a b = true -> a = b.
Proof. destruct a, b; simpl; try discriminate; auto. Qed.
Lemma instr_eqb_eq a b : instr_eqb a b = true -> a = b.
Proof.
  destruct a, b; simpl; try discriminate; auto; intros H;
    repeat match goal with
           | H : _ && _ = true |- _ => apply andb_true_iff in H as [? ?]
           | H : reg_eqb _ _ = true |- _ => apply reg_eqb_eq in H
           | H : region_eqb _ _ = true |- _ => apply region_eqb_eq in H
           | H : (_ =? _) = true |- _ => apply Z.eqb_eq in H
           end; congruence.
Qed.
Lemma prog_eqb_eq p q : prog_eqb p q = true -> p = q.
Proof.
  revert q; induction p as [|i p IH]; destruct q as [|j q]; simpl; try discriminate; auto.
  intros H; apply andb_true_iff in H as [H1 H2]. apply instr_eqb_eq in H1; apply IH in H2; congruence.
Qed.

(** * Semantics *)
Inductive access := Rd (m : region) (i : Z) | Wr (m : region) (i : Z).

Record state := mkst {
  rg : reg -> Z;
  cf : bool;
  zf : bool;
  ma : Z -> Z;
  mb : Z -> Z;
  tr : list access            (* most recent first *)
}.

Definition upd {A} (eqb : A -> A -> bool) (f : A -> Z) (k : A) (v : Z) : A -> Z :=
  fun j => if eqb j k then v else f j.
Definition setr (s : state) (r : reg) (v : Z) : state :=
  mkst (upd reg_eqb (rg s) r v) (cf s) (zf s) (ma s) (mb s) (tr s).
Definition b2z (b : bool) : Z := if b then 1 else 0.

(** Data arithmetic goes through named wrappers so that symbolic execution can unfold the
    control structure without unfolding the arithmetic. *)
Definition addr (i off : Z) : Z := i + off.
Definition updm (f : Z -> Z) (k v : Z) : Z -> Z := fun j => if j =? k then v else f j.
Definition wrap (t : Z) : Z := t mod B.
Definition is_zero (t : Z) : bool := t =? 0.
Definition carry_out (t : Z) : bool := B <=? t.
Definition borrow_out (t : Z) : bool := t <? 0.
Definition add3 (a b : Z) (c : bool) : Z := a + b + b2z c.
Definition sub3 (a b : Z) (c : bool) : Z := a - b - b2z c.
Definition succ_w (a : Z) : Z := (a + 1) mod B.
Definition pred_w (a : Z) : Z := (a - 1) mod B.

(** One non-jump instruction. [Label]/[Jnz]/[Unknown] are no-ops here; control flow is
    handled by [run]. *)
Definition step (i : instr) (s : state) : state :=
  match i with
  | Clc => mkst (rg s) false (zf s) (ma s) (mb s) (tr s)
  | Load r MA off =>
      mkst (upd reg_eqb (rg s) r (ma s (addr (rg s Ridx) off))) (cf s) (zf s) (ma s) (mb s)
           (Rd MA (addr (rg s Ridx) off) :: tr s)
  | Load r MB off =>
      mkst (upd reg_eqb (rg s) r (mb s (addr (rg s Ridx) off))) (cf s) (zf s) (ma s) (mb s)
           (Rd MB (addr (rg s Ridx) off) :: tr s)
  | Store MA off r =>
      mkst (rg s) (cf s) (zf s) (updm (ma s) (addr (rg s Ridx) off) (rg s r)) (mb s)
           (Wr MA (addr (rg s Ridx) off) :: tr s)
  | Store MB off r =>
      mkst (rg s) (cf s) (zf s) (ma s) (updm (mb s) (addr (rg s Ridx) off) (rg s r))
           (Wr MB (addr (rg s Ridx) off) :: tr s)
  | Adc d r =>
      mkst (upd reg_eqb (rg s) d (wrap (add3 (rg s d) (rg s r) (cf s))))
           (carry_out (add3 (rg s d) (rg s r) (cf s)))
           (is_zero (wrap (add3 (rg s d) (rg s r) (cf s)))) (ma s) (mb s) (tr s)
  | Sbb d r =>
      mkst (upd reg_eqb (rg s) d (wrap (sub3 (rg s d) (rg s r) (cf s))))
           (borrow_out (sub3 (rg s d) (rg s r) (cf s)))
           (is_zero (wrap (sub3 (rg s d) (rg s r) (cf s)))) (ma s) (mb s) (tr s)
  | Inc r =>
      mkst (upd reg_eqb (rg s) r (succ_w (rg s r))) (cf s) (is_zero (succ_w (rg s r))) (ma s) (mb s) (tr s)
  | Dec r =>
      mkst (upd reg_eqb (rg s) r (pred_w (rg s r))) (cf s) (is_zero (pred_w (rg s r))) (ma s) (mb s) (tr s)
  | Setc r => setr s r (b2z (cf s))
  | Label _ | Jnz _ | Unknown _ => s
  end.

Definition exec (p : list instr) (s : state) : state := fold_left (fun s i => step i s) p s.

(** Program shape: prologue; Label; body; Jnz; epilogue. *)
Fixpoint split_at_label (p : list instr) : list instr * list instr :=
  match p with
  | [] => ([], [])
  | Label _ :: r => ([], r)
  | i :: r => let '(a, b) := split_at_label r in (i :: a, b)
  end.
Fixpoint split_at_jnz (p : list instr) : list instr * list instr :=
  match p with
  | [] => ([], [])
  | Jnz _ :: r => ([], r)
  | i :: r => let '(a, b) := split_at_jnz r in (i :: a, b)
  end.

Fixpoint loop (fuel : nat) (body : list instr) (s : state) : state * bool :=
  let s' := exec body s in
  if zf s' then (s', true)
  else match fuel with O => (s', false) | S f => loop f body s' end.

(** Run the whole template; the boolean says the loop terminated within the fuel. *)
Definition run (fuel : nat) (p : list instr) (s : state) : state * bool :=
  let '(pro, rest) := split_at_label p in
  let '(body, epi) := split_at_jnz rest in
  let '(s1, ok) := loop fuel body (exec pro s) in
  (exec epi s1, ok).

Definition init_state (a b : Z -> Z) (size : Z) : state :=
  mkst (fun r => match r with Rsize => size | _ => 0 end) false false a b [].
