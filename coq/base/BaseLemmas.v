(* BaseLemmas.v — algebra of [val], [strip], [enc], [canon]. *)
From BigNum Require Export Base.
Open Scope Z_scope.

Lemma B_gt1 : 1 < B. Proof. rewrite B_val; lia. Qed.
Lemma B_pow n : 0 <= n -> 0 < B ^ n.
Proof. intros; apply Z.pow_pos_nonneg; [apply B_pos|auto]. Qed.
Lemma B_pow_nat (n : nat) : 0 < B ^ Z.of_nat n.
Proof. apply B_pow; lia. Qed.
Lemma B_pow_S (n : nat) : B ^ Z.of_nat (S n) = B * B ^ Z.of_nat n.
Proof. rewrite Nat2Z.inj_succ, Z.pow_succ_r by lia; reflexivity. Qed.

Lemma digit_decomp d e x y : 0 <= d < B -> 0 <= e < B -> d + B * x = e + B * y -> d = e /\ x = y.
Proof.
  intros Hd He H; pose proof B_pos.
  assert (H1 : B * (x - y) = e - d) by lia.
  assert (x - y = 0) by nia. split; nia.
Qed.

Lemma digitb_spec d : digitb d = true <-> digit d.
Proof. unfold digitb, digit; rewrite andb_true_iff, Z.leb_le, Z.ltb_lt; tauto. Qed.
Lemma wfb_spec l : wfb l = true <-> wf l.
Proof.
  unfold wfb, wf; rewrite forallb_forall, Forall_forall.
  split; intros H x Hx; apply digitb_spec, H, Hx.
Qed.

Lemma wf_nil : wf []. Proof. constructor. Qed.
Lemma wf_cons d l : wf (d :: l) <-> digit d /\ wf l.
Proof. split; [inversion 1; auto | intros [? ?]; constructor; auto]. Qed.
Lemma wf_app a b : wf (a ++ b) <-> wf a /\ wf b.
Proof. unfold wf; apply Forall_app. Qed.
Lemma wf_firstn n l : wf l -> wf (firstn n l).
Proof. intros H; rewrite <- (firstn_skipn n l) in H; apply wf_app in H; tauto. Qed.
Lemma wf_skipn n l : wf l -> wf (skipn n l).
Proof. intros H; rewrite <- (firstn_skipn n l) in H; apply wf_app in H; tauto. Qed.
Lemma wf_zeros k : wf (zeros k).
Proof. unfold zeros, wf; apply Forall_forall; intros x Hx; apply repeat_spec in Hx; subst; unfold digit; pose proof B_pos; lia. Qed.
Lemma wf_rev l : wf l -> wf (rev l).
Proof. unfold wf; apply Forall_rev. Qed.

Lemma val_nil : val [] = 0. Proof. reflexivity. Qed.
Lemma val_cons d l : val (d :: l) = d + B * val l. Proof. reflexivity. Qed.
Lemma val_app a b : val (a ++ b) = val a + B ^ Z.of_nat (length a) * val b.
Proof.
  induction a as [|d a IH]; [cbn [app length val Z.of_nat]; rewrite Z.pow_0_r; lia|].
  change (length (d :: a)) with (S (length a)); rewrite B_pow_S.
  simpl app; rewrite !val_cons, IH; ring.
Qed.
Lemma val_bound l : wf l -> 0 <= val l < B ^ Z.of_nat (length l).
Proof.
  induction l as [|d l IH]; intros H; [cbn [length val Z.of_nat]; rewrite Z.pow_0_r; lia|].
  apply wf_cons in H as [Hd Hl]; specialize (IH Hl).
  change (length (d :: l)) with (S (length l)); rewrite B_pow_S, val_cons.
  unfold digit in Hd; pose proof B_pos; nia.
Qed.
Lemma val_nonneg l : wf l -> 0 <= val l.
Proof. intros H; apply val_bound in H; lia. Qed.
Lemma val_zeros k : val (zeros k) = 0.
Proof. unfold zeros; induction k as [|k IH]; [reflexivity|]; cbn [repeat]; rewrite val_cons, IH; lia. Qed.
Lemma val_split n l : val l = val (firstn n l) + B ^ Z.of_nat (length (firstn n l)) * val (skipn n l).
Proof. rewrite <- val_app, firstn_skipn; reflexivity. Qed.
Lemma val_single d : val [d] = d. Proof. simpl; lia. Qed.
Lemma val_zero_iff l : wf l -> (val l = 0 <-> Forall (fun d => d = 0) l).
Proof.
  induction l as [|d l IH]; intros H; [split; auto|].
  apply wf_cons in H as [Hd Hl]; specialize (IH Hl).
  pose proof (val_nonneg l Hl); rewrite val_cons; unfold digit in Hd; pose proof B_pos.
  split.
  - intros Hz; assert (d = 0 /\ val l = 0) as [-> Hv] by nia.
    constructor; [auto|apply IH, Hv].
  - inversion 1; subst; apply IH in H5; nia.
Qed.

(** ** strip *)
Lemma strip_cons d r :
  strip (d :: r) = match strip r with [] => if d =? 0 then [] else [d] | r' => d :: r' end.
Proof. reflexivity. Qed.
Lemma val_strip l : val (strip l) = val l.
Proof.
  induction l as [|d l IH]; [reflexivity|].
  rewrite strip_cons, val_cons, <- IH.
  destruct (strip l) as [|e r'] eqn:E.
  - destruct (Z.eqb_spec d 0); simpl; lia.
  - rewrite val_cons; reflexivity.
Qed.
Lemma wf_strip l : wf l -> wf (strip l).
Proof.
  induction l as [|d l IH]; intros H; [constructor|].
  apply wf_cons in H as [Hd Hl]; specialize (IH Hl).
  rewrite strip_cons; destruct (strip l) as [|e r'].
  - destruct (d =? 0); [constructor|apply wf_cons; split; [auto|constructor]].
  - apply wf_cons; auto.
Qed.
Lemma strip_idem l : strip (strip l) = strip l.
Proof.
  induction l as [|d l IH]; [reflexivity|].
  rewrite strip_cons; destruct (strip l) as [|e r'] eqn:E.
  - destruct (Z.eqb_spec d 0); [reflexivity|].
    simpl; destruct (Z.eqb_spec d 0); congruence.
  - rewrite strip_cons, IH; reflexivity.
Qed.
Lemma canon_strip l : wf l -> canon (strip l).
Proof. split; [apply wf_strip; auto|apply strip_idem]. Qed.
Lemma canon_nil : canon []. Proof. split; [constructor|reflexivity]. Qed.
Lemma length_strip l : (length (strip l) <= length l)%nat.
Proof.
  induction l as [|d l IH]; [auto|].
  rewrite strip_cons; destruct (strip l); [destruct (d =? 0)|]; simpl in *; lia.
Qed.
Lemma strip_nil_iff l : strip l = [] <-> Forall (fun d => d = 0) l.
Proof.
  induction l as [|d l IH]; [split; auto|].
  rewrite strip_cons; destruct (strip l) as [|e r'].
  - destruct (Z.eqb_spec d 0).
    + split; [intros _; constructor; [auto|apply IH; auto]|auto].
    + split; [discriminate|inversion 1; contradiction].
  - split; [discriminate|inversion 1; subst].
    match goal with H : Forall _ l |- _ => apply IH in H; discriminate end.
Qed.
Lemma strip_val_zero l : wf l -> val l = 0 -> strip l = [].
Proof. intros H Hv; apply strip_nil_iff, val_zero_iff; auto. Qed.
Lemma canon_val_zero l : canon l -> val l = 0 -> l = [].
Proof. intros [H Hs] Hv; rewrite <- Hs; apply strip_val_zero; auto. Qed.
Lemma canon_val_pos l : canon l -> l <> [] -> 0 < val l.
Proof.
  intros Hc Hn; pose proof (val_nonneg l (proj1 Hc)).
  destruct (Z.eq_dec (val l) 0) as [E|]; [apply canon_val_zero in E; tauto|lia].
Qed.

Lemma canon_cons_inv d l : canon (d :: l) -> digit d /\ canon l /\ (l = [] -> d <> 0).
Proof.
  intros [Hw Hs]; apply wf_cons in Hw as [Hd Hl]; rewrite strip_cons in Hs.
  destruct (strip l) as [|e r'] eqn:E.
  - destruct (Z.eqb_spec d 0); [discriminate|].
    inversion Hs; subst. split; [exact Hd|split; [apply canon_nil|auto]].
  - injection Hs as Hs'. split; [exact Hd|split; [split; [exact Hl|congruence]|intros ->; discriminate]].
Qed.

Theorem canon_inj a b : canon a -> canon b -> val a = val b -> a = b.
Proof.
  revert b; induction a as [|d a IH]; intros b Ha Hb Hv.
  - symmetry; apply canon_val_zero; auto.
  - destruct b as [|e b]; [apply canon_val_zero; auto|].
    apply canon_cons_inv in Ha as (Hd & Ha & Hna), Hb as (He & Hb & Hnb).
    rewrite !val_cons in Hv. unfold digit in *. pose proof B_pos.
    destruct (digit_decomp _ _ _ _ Hd He Hv) as [-> Hv'].
    f_equal; apply IH; auto.
Qed.

(** ** enc *)
Lemma enc_fuel_val f n : 0 <= n -> n < B ^ Z.of_nat f -> val (enc_fuel f n) = n.
Proof.
  revert n; induction f as [|f IH]; intros n Hn Hb.
  - simpl in *; lia.
  - rewrite B_pow_S in Hb; cbn [enc_fuel].
    destruct (Z.leb_spec n 0); [simpl; lia|].
    rewrite val_cons, IH; pose proof B_pos; [|nia|nia].
    rewrite (Z.div_mod n B) at 3 by lia; lia.
Qed.
Lemma enc_fuel_canon f n : n < B ^ Z.of_nat f -> canon (enc_fuel f n).
Proof.
  revert n; induction f as [|f IH]; intros n Hb; [apply canon_nil|].
  cbn [enc_fuel]; destruct (Z.leb_spec n 0); [apply canon_nil|].
  rewrite B_pow_S in Hb; pose proof B_pos.
  assert (Hq : n / B < B ^ Z.of_nat f) by nia.
  destruct (IH (n / B) Hq) as [Hw Hs]; split.
  - apply wf_cons; split; auto; unfold digit; apply Z.mod_pos_bound; lia.
  - rewrite strip_cons, Hs.
    destruct (enc_fuel f (n / B)) eqn:E; [|reflexivity].
    destruct (Z.eqb_spec (n mod B) 0) as [Hz|]; [|reflexivity].
    exfalso.
    assert (Hv : val (enc_fuel f (n / B)) = n / B).
    { apply enc_fuel_val; [apply Z.div_pos; lia|auto]. }
    rewrite E in Hv; simpl in Hv. nia.
Qed.

Lemma log2_digits n : 0 < n -> n < B ^ Z.of_nat (ndigits n).
Proof.
  intros Hn; unfold ndigits.
  rewrite Z2Nat.id by (pose proof (Z.log2_nonneg n); nia).
  pose proof (Z.log2_spec n Hn) as [_ Hu].
  eapply Z.lt_le_trans; [exact Hu|].
  rewrite B_val. change 18446744073709551616 with (2 ^ 64).
  rewrite <- Z.pow_mul_r by (pose proof (Z.log2_nonneg n); nia).
  apply Z.pow_le_mono_r; [lia|]. pose proof (Z.log2_nonneg n); nia.
Qed.

Theorem enc_val n : 0 <= n -> val (enc n) = n.
Proof.
  intros Hn; unfold enc.
  destruct (Z.eq_dec n 0) as [->|]; [reflexivity|].
  apply enc_fuel_val; [auto|apply log2_digits; lia].
Qed.
Theorem enc_canon n : canon (enc n).
Proof.
  unfold enc; destruct (Z_lt_le_dec 0 n) as [Hp|Hn].
  - apply enc_fuel_canon, log2_digits; auto.
  - destruct (ndigits n); cbn [enc_fuel]; [apply canon_nil|].
    destruct (Z.leb_spec n 0); [apply canon_nil|lia].
Qed.
Lemma enc_wf n : wf (enc n). Proof. apply enc_canon. Qed.
Theorem enc_of_canon l : canon l -> enc (val l) = l.
Proof.
  intros Hc; apply canon_inj; [apply enc_canon|auto|].
  apply enc_val, val_nonneg, Hc.
Qed.
Lemma enc_strip l : wf l -> enc (val l) = strip l.
Proof. intros H; rewrite <- val_strip; apply enc_of_canon, canon_strip, H. Qed.
Lemma enc_0 : enc 0 = []. Proof. reflexivity. Qed.
Lemma enc_nil_iff n : 0 <= n -> (enc n = [] <-> n = 0).
Proof.
  intros Hn; split; [|intros ->; reflexivity].
  intros E; rewrite <- (enc_val n Hn), E; reflexivity.
Qed.
Lemma enc_inj a b : 0 <= a -> 0 <= b -> enc a = enc b -> a = b.
Proof. intros Ha Hb E; rewrite <- (enc_val a Ha), <- (enc_val b Hb), E; reflexivity. Qed.

(** [Eq] on canonical values is numeric equality. *)
Theorem canon_eq_iff a b : canon a -> canon b -> (a = b <-> val a = val b).
Proof. intros Ha Hb; split; [intros ->; reflexivity|apply canon_inj; auto]. Qed.

(** ** digits_n *)
Lemma length_digits_n k n : length (digits_n k n) = k.
Proof. revert n; induction k; intros; simpl; auto. Qed.
Lemma wf_digits_n k n : wf (digits_n k n).
Proof.
  revert n; induction k as [|k IH]; intros n; [constructor|].
  apply wf_cons; split; [apply Z.mod_pos_bound, B_pos|apply IH].
Qed.
Lemma val_digits_n k n : val (digits_n k n) = n mod B ^ Z.of_nat k.
Proof.
  revert n; induction k as [|k IH]; intros n.
  - simpl; rewrite Z.mod_1_r; reflexivity.
  - cbn [digits_n]; rewrite val_cons, IH, B_pow_S.
    pose proof B_pos; pose proof (B_pow_nat k).
    rewrite Z.rem_mul_r by lia. reflexivity.
Qed.
Lemma digits_n_val l : wf l -> digits_n (length l) (val l) = l.
Proof.
  induction l as [|d l IH]; intros H; [reflexivity|].
  apply wf_cons in H as [Hd Hl]; cbn [length digits_n]; rewrite val_cons.
  unfold digit in Hd; pose proof B_pos.
  assert (Hm : (d + B * val l) mod B = d) by (symmetry; apply Z.mod_unique_pos with (val l); lia).
  assert (Hq : (d + B * val l) / B = val l) by (symmetry; apply Z.div_unique_pos with d; lia).
  rewrite Hm, Hq.
  rewrite IH; auto.
Qed.
Lemma val_inj_len a b : wf a -> wf b -> length a = length b -> val a = val b -> a = b.
Proof.
  intros Ha Hb Hl Hv. rewrite <- (digits_n_val a Ha), <- (digits_n_val b Hb), Hl, Hv; reflexivity.
Qed.

(** ** BigInt *)
Lemma z_sign_z z : sign_z (z_sign z) * Z.abs z = z.
Proof. destruct z; simpl; lia. Qed.
Theorem ienc_val z : ival (ienc z) = z.
Proof. unfold ival, ienc; cbn [sg mag]; rewrite enc_val by lia; apply z_sign_z. Qed.
Theorem ienc_canon z : icanon (ienc z).
Proof.
  unfold icanon, ienc; cbn [sg mag]; split; [apply enc_canon|].
  rewrite enc_nil_iff by lia. destruct z; simpl; split; try discriminate; try lia; auto.
Qed.
Lemma icanon_sign x : icanon x -> sg x = z_sign (ival x) /\ val (mag x) = Z.abs (ival x).
Proof.
  destruct x as [s m]; unfold icanon, ival; cbn [sg mag]; intros [Hc Hz].
  destruct s; cbn [sign_z].
  - assert (Hm : m <> []) by (intros E; apply Hz in E; discriminate).
    pose proof (canon_val_pos m Hc Hm). destruct (val m); simpl; try lia; auto.
  - assert (m = []) as -> by (apply Hz; reflexivity). simpl; auto.
  - assert (Hm : m <> []) by (intros E; apply Hz in E; discriminate).
    pose proof (canon_val_pos m Hc Hm). destruct (val m); simpl; try lia; auto.
Qed.
Theorem icanon_inj x y : icanon x -> icanon y -> ival x = ival y -> x = y.
Proof.
  intros Hx Hy Hv.
  destruct (icanon_sign x Hx) as [Sx Mx], (icanon_sign y Hy) as [Sy My].
  destruct x as [sx mx], y as [sy my]; cbn [sg mag] in *.
  f_equal; [congruence|].
  apply canon_inj; [apply Hx|apply Hy|congruence].
Qed.
Theorem ienc_of_icanon x : icanon x -> ienc (ival x) = x.
Proof. intros H; apply icanon_inj; [apply ienc_canon|auto|apply ienc_val]. Qed.
Lemma from_biguint_val s m : wf m -> s <> NoSign -> ival (from_biguint s m) = sign_z s * val m.
Proof. intros _ Hs; destruct s, m; simpl; try congruence; try lia; reflexivity. Qed.
Lemma from_biguint_canon s m : canon m -> icanon (from_biguint s m).
Proof.
  intros Hc; destruct s, m; simpl; unfold icanon; cbn [sg mag];
    (split; [first [apply canon_nil|exact Hc]|split; congruence]).
Qed.
Lemma from_biguint_ienc s m : canon m -> from_biguint s m = ienc (sign_z s * val m).
Proof.
  intros Hc; symmetry. rewrite <- (ienc_of_icanon (from_biguint s m)) by (apply from_biguint_canon; auto).
  f_equal. destruct s; [rewrite from_biguint_val by (try apply Hc; discriminate); reflexivity| |rewrite from_biguint_val by (try apply Hc; discriminate); reflexivity].
  simpl; unfold ival; simpl; lia.
Qed.

(** ** canonical = well-formed with the top digit carrying weight *)
Lemma canon_lower l : canon l -> l <> [] -> B ^ (Z.of_nat (length l) - 1) <= val l.
Proof.
  induction l as [|d l IH]; intros Hc Hn; [congruence|].
  apply canon_cons_inv in Hc as (Hd & Hc & Hz).
  change (length (d :: l)) with (S (length l)). rewrite Nat2Z.inj_succ, val_cons.
  replace (Z.succ (Z.of_nat (length l)) - 1) with (Z.of_nat (length l)) by lia.
  destruct l as [|e l'].
  - cbn [length Z.of_nat val]. rewrite Z.pow_0_r. specialize (Hz eq_refl). unfold digit in Hd. lia.
  - assert (Hne : e :: l' <> []) by discriminate. specialize (IH Hc Hne).
    change (length (e :: l')) with (S (length l')) in *. rewrite B_pow_S.
    rewrite Nat2Z.inj_succ in IH. replace (Z.succ (Z.of_nat (length l')) - 1) with (Z.of_nat (length l')) in IH by lia.
    unfold digit in Hd. pose proof B_pos. nia.
Qed.
Lemma canon_of_lower l : wf l -> l <> [] -> B ^ (Z.of_nat (length l) - 1) <= val l -> canon l.
Proof.
  induction l as [|d l IH]; intros Hw Hn Hv; [congruence|].
  apply wf_cons in Hw as [Hd Hl]. split; [apply wf_cons; auto|].
  change (length (d :: l)) with (S (length l)) in Hv. rewrite Nat2Z.inj_succ, val_cons in Hv.
  replace (Z.succ (Z.of_nat (length l)) - 1) with (Z.of_nat (length l)) in Hv by lia.
  rewrite strip_cons. destruct l as [|e l'].
  - cbn [strip]. cbn [length Z.of_nat val] in Hv. rewrite Z.pow_0_r in Hv.
    destruct (Z.eqb_spec d 0); [lia|reflexivity].
  - assert (Hne : e :: l' <> []) by discriminate.
    assert (Hc : canon (e :: l')).
    { apply IH; auto. change (length (e :: l')) with (S (length l')) in *.
      rewrite B_pow_S in Hv. rewrite Nat2Z.inj_succ.
      replace (Z.succ (Z.of_nat (length l')) - 1) with (Z.of_nat (length l')) by lia.
      unfold digit in Hd. pose proof B_pos. pose proof (B_pow_nat (length l')). nia. }
    destruct Hc as [_ Hs]. rewrite Hs. reflexivity.
Qed.
Lemma canon_app_last l d : wf l -> digit d -> d <> 0 -> canon (l ++ [d]).
Proof.
  intros Hl Hd Hn. apply canon_of_lower.
  - apply wf_app; split; auto. apply wf_cons; split; [auto|constructor].
  - destruct l; discriminate.
  - rewrite app_length, val_app. cbn [length]. rewrite val_single.
    replace (Z.of_nat (length l + 1) - 1) with (Z.of_nat (length l)) by lia.
    pose proof (val_nonneg l Hl). pose proof (B_pow_nat (length l)). unfold digit in Hd. nia.
Qed.
Lemma length_enc_le l : wf l -> (length (enc (val l)) <= length l)%nat.
Proof. intros H. rewrite enc_strip by auto. apply length_strip. Qed.
