(* Extract.v — extraction of the executable model and the Z-level specs to OCaml.
   Run by tools/build_driver.sh inside a scratch directory.  The directives below
   (plus those of ExtrOcamlBasic / ExtrOcamlNativeString / ExtrOcamlZBigInt) are part of
   the trusted base; they are cross-checked on every run by evaluating a sample of the
   same cases inside Coq with vm_compute. *)
Require Import ExtrOcamlBasic ExtrOcamlNativeString ExtrOcamlZBigInt.
Require Import ZArith.

(* Additional zarith-backed constants (not covered by ExtrOcamlZBigInt). *)
Extract Constant Z.log2 =>
  "(fun x -> if Big_int_Z.sign_big_int x <= 0 then Big_int_Z.zero_big_int
             else Big_int_Z.big_int_of_int (Zar.numbits x - 1))".
Extract Constant Z.pow =>
  "(fun x y -> if Big_int_Z.sign_big_int y < 0 then Big_int_Z.zero_big_int
               else Big_int_Z.power_big_int_positive_big_int x y)".
Extract Constant Z.land => "Zar.logand".
Extract Constant Z.lor => "Zar.logor".
Extract Constant Z.lxor => "Zar.logxor".
Extract Constant Z.ldiff => "(fun a b -> Zar.logand a (Zar.lognot b))".
Extract Constant Z.lnot => "Zar.lognot".
Extract Constant Z.testbit =>
  "(fun x i -> if Big_int_Z.sign_big_int i < 0 then false else Zar.testbit x (Zar.to_int i))".
Extract Constant Z.quot => "(fun a b -> if Big_int_Z.sign_big_int b = 0 then Big_int_Z.zero_big_int else Zar.div a b)".
Extract Constant Z.rem => "(fun a b -> if Big_int_Z.sign_big_int b = 0 then a else Zar.rem a b)".
Extract Constant Z.gcd => "Zar.gcd".
Extract Constant Z.sqrt => "(fun a -> if Big_int_Z.sign_big_int a <= 0 then Big_int_Z.zero_big_int else Zar.sqrt a)".
Extract Constant Z.even => "Zar.is_even".
Extract Constant Z.odd => "Zar.is_odd".
Extract Constant Z.ltb => "Big_int_Z.lt_big_int".
Extract Constant Z.leb => "Big_int_Z.le_big_int".
Extract Constant Z.gtb => "Big_int_Z.gt_big_int".
Extract Constant Z.geb => "Big_int_Z.ge_big_int".
