(* InstSerde.v — the source-extracted decision points of src/biguint/serde.rs (64-bit arm) and
   src/bigint/serde.rs are the ones the C17 theorems are proved for.  Re-checked on every run
   against the regenerated gen/Extracted.v. *)
From BigNum Require Import Base Iter Serde SerdeProofs Extracted.
Lemma serde_params_ok : serde_ok Extracted.serde = true.
Proof. vm_compute. reflexivity. Qed.
