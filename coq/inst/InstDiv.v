(* InstDiv.v — the source-extracted division parameters satisfy what the C03 theorems need.
   Re-checked on every run against the regenerated gen/Extracted.v. *)
From BigNum Require Import Base X86 AddSub Div DivProofs Extracted.
Lemma div_params_ok : div_ok Extracted.div = true.
Proof. vm_compute. reflexivity. Qed.
