(* InstRadix.v — the source-extracted radix/text parameters (ranges, thresholds, loop
   conditions, chunk arithmetic, table bounds, byte→digit and digit→ASCII arms) satisfy what
   the C06 theorems need.  Re-checked on every run against the regenerated gen/Extracted.v. *)
From BigNum Require Import Base AddSub Mul Div Radix RadixProofs Extracted.
Lemma radix_params_ok : radix_ok Extracted.radix = true.
Proof. vm_compute. reflexivity. Qed.
Lemma radix_params_std : radix_std Extracted.radix.
Proof. apply radix_ok_inv, radix_params_ok. Qed.
