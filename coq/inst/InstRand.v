(* InstRand.v — the source-extracted decision points of src/bigrand.rs are the ones the C18 theorems
   are proved for.  Re-checked on every run against the regenerated gen/Extracted.v. *)
From BigNum Require Import Base SrcLit AddSub Sign Rand RandProofs Extracted.
Lemma rand_params_ok : rand_ok Extracted.rand = true.
Proof. vm_compute. reflexivity. Qed.
