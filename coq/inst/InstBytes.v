(* InstBytes.v — the source-extracted decision points of the byte import/export code
   (src/biguint.rs to_bytes_le / from_bytes_le, the four signed-bytes functions of src/bigint/convert.rs) are the ones
   the C09 theorems are proved for.  Re-checked on every run against the regenerated gen/Extracted.v. *)
From BigNum Require Import Base SrcLit Iter Bytes BytesProofs Extracted.
Lemma bytes_params_ok : bytes_ok Extracted.byteio = true.
Proof. vm_compute. reflexivity. Qed.
