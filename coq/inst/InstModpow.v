(* InstModpow.v — the source-extracted decision points of modpow/modinv (window width,
   Montgomery carry tests, final-reduction comparisons, parity dispatch, sign-arm tables, zero
   guard of BigInt::modinv) are the ones the C05 theorems are proved for.
   Re-checked on every run against the regenerated gen/Extracted.v. *)
From BigNum Require Import Base Monty MontyProofs Extracted.
Lemma modpow_params_ok : modpow_ok Extracted.modpow = true.
Proof. vm_compute. reflexivity. Qed.
