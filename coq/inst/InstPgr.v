(* InstPgr.v — the source-extracted parameters of pow / gcd / roots satisfy what the C11 / C12 /
   C13 theorems need.  Re-checked on every run against the regenerated gen/Extracted.v. *)
From BigNum Require Import Base Pow PowProofs Gcd GcdProofs Roots RootsProofs Extracted.
Lemma pow_params_ok : pow_ok pgr_pow = true.
Proof. vm_compute. reflexivity. Qed.
Lemma gcd_params_ok : gcd_ok pgr_gcd = true.
Proof. vm_compute. reflexivity. Qed.
Lemma roots_params_ok : roots_ok pgr_roots = true.
Proof. vm_compute. reflexivity. Qed.
