(* InstBits.v — the decision points extracted from /repo's current source are the ones the C07
   theorems are proved for.  Re-checked on every run against the regenerated gen/Extracted.v. *)
From BigNum Require Import Base X86 AddSub Bits BitsProofsU Extracted.
Lemma bits_params_ok : bits_ok bits = true.
Proof. vm_compute. reflexivity. Qed.
