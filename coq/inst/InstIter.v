(* InstIter.v — the source-extracted decision points of `U32Digits` (src/biguint/iter.rs, 64-bit
   arm) are the ones the C09 iterator theorems are proved for.  Re-checked on every run against the
   regenerated gen/Extracted.v. *)
From BigNum Require Import Base SrcLit Iter IterProofs Extracted.
Lemma iter_params_ok : iter_ok Extracted.iter = true.
Proof. vm_compute. reflexivity. Qed.
