(* InstAddSub.v — the source-extracted parameters satisfy what the C01/C15 theorems need.
   Re-checked on every run against the regenerated gen/Extracted.v. *)
From BigNum Require Import Base X86 AddSub AddSubProofs Extracted.
Lemma addsub_params_ok : addsub_ok addsub = true.
Proof. vm_compute. reflexivity. Qed.
