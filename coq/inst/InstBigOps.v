(* InstBigOps.v — the big multiplication / division that the pow, roots, gcd, modpow and radix
   models are parameterised by, at the real models of their areas, with their exactness
   statements ([bmul_exact] / [bdivrem_exact] of PgrLoopProofs = the statements of
   MulProofs5.umul_spec (C02) and DivProofsApi.udivrem_spec (C03) at the extracted parameters). *)
From Coq Require Import ZArith List.
From BigNum Require Import Base BaseLemmas X86 AddSub PgrLoop PgrLoopProofs
  Mul MulProofs MulProofs5 Div DivProofs DivProofsApi Extracted InstMul InstDiv.
Open Scope Z_scope.

Lemma umul_exact : bmul_exact (Mul.umul Extracted.mul).
Proof. intros a b Ca Cb. apply umul_spec; auto using mul_params_ok. Qed.

Lemma udivrem_exact : bdivrem_exact (Div.udivrem Extracted.div).
Proof. intros a b Ca Cb. apply udivrem_spec; auto using div_params_ok. Qed.
