(* InstMulCost.v — the extracted parameters satisfy the extra conditions of the universal
   cost bound of C20 (imbalance test `x.len() * 2 <= y.len()`, Karatsuba from >= 6 digits,
   Toom-3 from >= 39 digits). *)
From BigNum Require Import Base X86 AddSub AddSubProofs Mul MulProofs MulCostQuad Extracted.
Lemma cost_params_ok : cost_ok mul = true.
Proof. vm_compute. reflexivity. Qed.
