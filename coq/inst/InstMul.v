(* InstMul.v — the source-extracted multiplication parameters satisfy what the C02 / C20
   theorems need (regime tests, thresholds, split points, buffer sizing).  Re-checked on every
   run against the regenerated gen/Extracted.v. *)
From BigNum Require Import Base X86 AddSub AddSubProofs Mul MulProofs Extracted.
Lemma mul_params_ok : mul_ok mul = true.
Proof. vm_compute. reflexivity. Qed.
