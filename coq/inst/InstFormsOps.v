(* InstFormsOps.v — C10: the value-level operations of InstForms.big_ops instantiated with the
   DIGIT-LEVEL models of the owning areas, run on the canonical encodings of the operands, and the
   proof that this instance satisfies [big_ops_ok] — every hypothesis H_* discharged with the
   refinement theorem of its area at the source-extracted parameters:
     H_ubigbig          C01 uadd/usub(+ref_val), C02 umul(+assign), C03 udiv/urem(+_val), C07 uand/uor/uxor(+assign)
     H_ibigbig          C01 iadd/isub, C02 imul(+assign), C03 idiv/irem, C07 iand/ior/ixor(+assign)
     H_uadd/usub_scalar, H_scalar_usub   FormsAddSubLeaves (C01 add2c/sub2/sub2rev)
     H_umul_scalar      C02 umul_digit (scalar_mul), umul_u128
     H_udivrem_scalar   C03 udiv/urem_u32|u64|u128 (div_rem_digit, rem_digit)
     H_scalar_udivrem   C03 digit_div_u, u128_div_u, u32|u64|u128_rem_u
     H_ushift           C07 biguint_shl / biguint_shr (inside FormsLeavesProofs.shift_phys)
     H_upow_scalar/big  C12 upow_prim / upow_big at bmul := Mul.umul Extracted.mul (C02 umul_spec)
   The flag [v] selects, where the crate has two hand-written bodies for one operator (by-reference
   vs. by-value / compound-assignment leaf), the second one; [big_ops_digit_ok] holds for both. *)
From Coq Require Import ZArith Zquot List Bool Lia.
From BigNum Require Import Base BaseLemmas X86 AddSub SpecAddSub AddSubProofs
  Mul SpecMul MulProofs MulProofs3 MulProofs5
  ShiftCore Div SpecDiv DivProofs DivProofsApi DivProofsSign
  Bits SpecBits BitsProofsU BitsProofsI
  PgrLoop PgrLoopProofs Pow SpecPow PowProofs
  Forms FormsLeaves FormsProofs FormsLeavesProofs FormsAddSubLeaves
  Extracted InstAddSub InstMul InstDiv InstBits InstPgr InstBigOps InstForms.
Import ListNotations.
Open Scope Z_scope.

Local Notation P := Extracted.div.

Definition uval (r : outcome (list Z)) : outcome Z := omap val r.
Definition ivalo (r : outcome bigint) : outcome Z := omap ival r.

(* BigUint (op) BigUint *)
Definition d_uop (v : bool) (o : opk) (x y : Z) : outcome Z :=
  let a := enc x in let b := enc y in
  match o with
  | OpAdd => uval (uadd addsub a b)
  | OpSub => uval (if v then usub_ref_val addsub a b else usub addsub a b)
  | OpMul => uval (if v then umul_assign mul a b else umul mul a b)
  | OpDiv => uval (if v then udiv_val P a b else udiv P a b)
  | OpRem => uval (if v then urem_val P a b else urem P a b)
  | OpBitAnd => Ret (val (if v then uand_assign a b else uand bits a b))
  | OpBitOr => Ret (val (if v then uor_assign bits a b else uor bits a b))
  | OpBitXor => Ret (val (if v then uxor_assign bits a b else uxor bits a b))
  | _ => Panic (Internal 1010)
  end.

(* BigInt (op) BigInt *)
Definition d_iop (v : bool) (o : opk) (x y : Z) : outcome Z :=
  let a := ienc x in let b := ienc y in
  match o with
  | OpAdd => ivalo (iadd addsub a b)
  | OpSub => ivalo (isub addsub a b)
  | OpMul => ivalo (if v then imul_assign mul a b else imul mul a b)
  | OpDiv => ivalo (idiv P a b)
  | OpRem => ivalo (irem P a b)
  | OpBitAnd => ivalo (if v then iand_assign a b else iand bits a b)
  | OpBitOr => ivalo (if v then ior_assign bits a b else ior bits a b)
  | OpBitXor => ivalo (if v then ixor_assign bits a b else ixor bits a b)
  | _ => Panic (Internal 1010)
  end.

(* BigUint (op) uN: u32 / u64 take the one-digit routine, u128 the two-digit one when the value
   needs it (the dispatch of the u128 impls on `other <= u64::MAX`) *)
Definition d_uop_s (v : bool) (o : opk) (x s : Z) : outcome Z :=
  let a := enc x in
  match o with
  | OpAdd => uadd_s_val addsub x s
  | OpSub => usub_s_val addsub x s
  | OpMul => uval (if s <? B then umul_digit a s else umul_u128 mul a s)
  | OpDiv => uval (if v && (s <? 2 ^ 32) then udiv_u32 P a s
                   else if s <? B then udiv_u64 P a s else udiv_u128 P a s)
  | OpRem => uval (if v && (s <? 2 ^ 32) then urem_u32 P a s
                   else if s <? B then urem_u64 P a s else urem_u128 P a s)
  | _ => Panic (Internal 1010)
  end.

(* uN (op) BigUint for the non-commutative operators *)
Definition d_s_uop (v : bool) (o : opk) (s x : Z) : outcome Z :=
  let b := enc x in
  match o with
  | OpSub => s_usub_val s x
  | OpDiv => uval (if s <? B then digit_div_u s b else u128_div_u s b)
  | OpRem => uval (if v && (s <? 2 ^ 32) then u32_rem_u s b
                   else if s <? B then u64_rem_u s b else u128_rem_u s b)
  | _ => Panic (Internal 1010)
  end.

Definition d_ushift (o : opk) (x k : Z) : outcome Z :=
  match o with
  | OpShl => uval (biguint_shl (enc x) k)
  | OpShr => uval (biguint_shr (enc x) k)
  | _ => Panic (Internal 1010)
  end.

Definition d_upow_s (x e : Z) : outcome Z := uval (upow_prim (Mul.umul mul) pgr_pow (enc x) e).
Definition d_upow_b (x e : Z) : outcome Z := uval (upow_big (Mul.umul mul) pgr_pow (enc x) (enc e)).

Definition big_ops_digit (v : bool) : big_ops :=
  {| bo_uop := d_uop v; bo_uop_s := d_uop_s v; bo_s_uop := d_s_uop v; bo_ushift := d_ushift;
     bo_upow_s := d_upow_s; bo_upow_b := d_upow_b; bo_iop := d_iop v |}.

(* ---- helpers ---------------------------------------------------------------------------------- *)
Lemma uval_enc (r : outcome Z) : (forall z, r = Ret z -> 0 <= z) -> uval (omap enc r) = r.
Proof.
  intros H. destruct r as [z| |]; try reflexivity. unfold uval, omap; cbn [bind].
  rewrite enc_val by (apply H; reflexivity). reflexivity.
Qed.
Lemma ivalo_ienc (r : outcome Z) : ivalo (omap ienc r) = r.
Proof. destruct r as [z| |]; try reflexivity. unfold ivalo, omap; cbn [bind]. rewrite ienc_val. reflexivity. Qed.

Lemma quot_nonneg a b : 0 <= a -> 0 < b -> Z.quot a b = a / b.
Proof. intros. apply Z.quot_div_nonneg; lia. Qed.
Lemma rem_nonneg a b : 0 <= a -> 0 < b -> Z.rem a b = a mod b.
Proof. intros. apply Z.rem_mod_nonneg; lia. Qed.

(* a Z-level division spec `nz y (..)` seen through val∘enc is zsem's Div / Rem on non-negatives *)
Lemma nz_div x y : 0 <= x -> 0 <= y -> uval (omap enc (nz y (x / y))) = zsem FamU OpDiv x y.
Proof.
  intros Hx Hy. rewrite uval_enc.
  - unfold nz, zsem. destruct (Z.eqb_spec y 0); [reflexivity|]. rewrite quot_nonneg by lia. reflexivity.
  - unfold nz. destruct (Z.eqb_spec y 0); intros z E; inversion E. apply Z.div_pos; lia.
Qed.
Lemma nz_rem x y : 0 <= x -> 0 <= y -> uval (omap enc (nz y (x mod y))) = zsem FamU OpRem x y.
Proof.
  intros Hx Hy. rewrite uval_enc.
  - unfold nz, zsem. destruct (Z.eqb_spec y 0); [reflexivity|]. rewrite rem_nonneg by lia. reflexivity.
  - unfold nz. destruct (Z.eqb_spec y 0); intros z E; inversion E. apply Z.mod_pos_bound; lia.
Qed.

Lemma BB_2_128 : B * B = 2 ^ 128.
Proof. rewrite B_val. reflexivity. Qed.
Lemma B_2_64 : B = 2 ^ 64.
Proof. apply B_val. Qed.

(* ---- the discharge ---------------------------------------------------------------------------- *)
Section Discharge.
Variable v : bool.

Lemma d_ubigbig o x y : bigbig8 o = true -> 0 <= x -> 0 <= y -> d_uop v o x y = zsem FamU o x y.
Proof.
  intros Ho Hx Hy.
  pose proof (enc_canon x) as Cx. pose proof (enc_canon y) as Cy.
  pose proof (enc_val x Hx) as Vx. pose proof (enc_val y Hy) as Vy.
  pose proof addsub_params_ok as Ha. pose proof mul_params_ok as Hm.
  pose proof div_params_ok as Hd. pose proof bits_params_ok as Hb.
  destruct o; try discriminate; unfold d_uop; cbv zeta.
  - rewrite uadd_spec by auto. unfold uval, omap; cbn [bind zsem]. rewrite Vx, Vy, enc_val by lia. reflexivity.
  - assert (E : (if v then usub_ref_val addsub (enc x) (enc y) else usub addsub (enc x) (enc y)) =
                if x <? y then Panic SubUnderflow else Ret (enc (x - y))).
    { destruct v; [rewrite usub_ref_val_spec by auto | rewrite usub_spec by (auto; apply Cx || apply Cy)];
        rewrite Vx, Vy; reflexivity. }
    rewrite E. cbn [zsem]. destruct (Z.ltb_spec x y); [reflexivity|].
    unfold uval, omap; cbn [bind]. rewrite enc_val by lia. reflexivity.
  - assert (E : (if v then umul_assign mul (enc x) (enc y) else umul mul (enc x) (enc y)) = Ret (enc (x * y))).
    { destruct v; [rewrite umul_assign_spec by auto | rewrite umul_spec by auto]; rewrite Vx, Vy; reflexivity. }
    rewrite E. unfold uval, omap; cbn [bind zsem]. rewrite enc_val by nia. reflexivity.
  - assert (E : (if v then udiv_val P (enc x) (enc y) else udiv P (enc x) (enc y)) = omap enc (spec_udiv x y)).
    { destruct v; [rewrite udiv_val_spec by auto | rewrite udiv_spec by auto]; rewrite Vx, Vy; reflexivity. }
    rewrite E. apply nz_div; assumption.
  - assert (E : (if v then urem_val P (enc x) (enc y) else urem P (enc x) (enc y)) = omap enc (spec_urem x y)).
    { destruct v; [rewrite urem_val_spec by auto | rewrite urem_spec by auto]; rewrite Vx, Vy; reflexivity. }
    rewrite E. apply nz_rem; assumption.
  - assert (E : (if v then uand_assign (enc x) (enc y) else uand bits (enc x) (enc y)) = enc (Z.land x y)).
    { destruct v; [rewrite uand_assign_spec by (apply Cx || apply Cy) | rewrite uand_spec by (auto; apply Cx || apply Cy)];
        rewrite Vx, Vy; reflexivity. }
    rewrite E. cbn [zsem]. rewrite enc_val by (apply Z.land_nonneg; lia). reflexivity.
  - assert (E : (if v then uor_assign bits (enc x) (enc y) else uor bits (enc x) (enc y)) = enc (Z.lor x y)).
    { destruct v; [rewrite uor_assign_spec by auto | rewrite uor_spec by auto]; rewrite Vx, Vy; reflexivity. }
    rewrite E. cbn [zsem]. rewrite enc_val by (apply Z.lor_nonneg; lia). reflexivity.
  - assert (E : (if v then uxor_assign bits (enc x) (enc y) else uxor bits (enc x) (enc y)) = enc (Z.lxor x y)).
    { destruct v; [rewrite uxor_assign_spec by (auto; apply Cx || apply Cy) | rewrite uxor_spec by (auto; apply Cx || apply Cy)];
        rewrite Vx, Vy; reflexivity. }
    rewrite E. cbn [zsem]. rewrite enc_val by (apply Z.lxor_nonneg; lia). reflexivity.
Qed.

Lemma d_ibigbig o x y : bigbig8 o = true -> d_iop v o x y = zsem FamI o x y.
Proof.
  intros Ho.
  pose proof (ienc_canon x) as Cx. pose proof (ienc_canon y) as Cy.
  pose proof (ienc_val x) as Vx. pose proof (ienc_val y) as Vy.
  pose proof addsub_params_ok as Ha. pose proof mul_params_ok as Hm.
  pose proof div_params_ok as Hd. pose proof bits_params_ok as Hb.
  destruct o; try discriminate; unfold d_iop; cbv zeta.
  - rewrite iadd_spec by auto. unfold ivalo, omap; cbn [bind zsem]. rewrite Vx, Vy, ienc_val. reflexivity.
  - rewrite isub_spec by auto. unfold ivalo, omap; cbn [bind zsem]. rewrite Vx, Vy, ienc_val. reflexivity.
  - assert (E : (if v then imul_assign mul (ienc x) (ienc y) else imul mul (ienc x) (ienc y)) = Ret (ienc (x * y))).
    { destruct v; [rewrite imul_assign_spec by auto | rewrite imul_spec by auto]; rewrite Vx, Vy; reflexivity. }
    rewrite E. unfold ivalo, omap; cbn [bind zsem]. rewrite ienc_val. reflexivity.
  - rewrite idiv_spec by auto. rewrite Vx, Vy, ivalo_ienc. reflexivity.
  - rewrite irem_spec by auto. rewrite Vx, Vy, ivalo_ienc. reflexivity.
  - assert (E : (if v then iand_assign (ienc x) (ienc y) else iand bits (ienc x) (ienc y)) = Ret (ienc (Z.land x y))).
    { destruct v; [rewrite iand_assign_spec by auto | rewrite iand_spec by auto]; rewrite Vx, Vy; reflexivity. }
    rewrite E. unfold ivalo, omap; cbn [bind zsem]. rewrite ienc_val. reflexivity.
  - assert (E : (if v then ior_assign bits (ienc x) (ienc y) else ior bits (ienc x) (ienc y)) = Ret (ienc (Z.lor x y))).
    { destruct v; [rewrite ior_assign_spec by auto | rewrite ior_spec by auto]; rewrite Vx, Vy; reflexivity. }
    rewrite E. unfold ivalo, omap; cbn [bind zsem]. rewrite ienc_val. reflexivity.
  - assert (E : (if v then ixor_assign bits (ienc x) (ienc y) else ixor bits (ienc x) (ienc y)) = Ret (ienc (Z.lxor x y))).
    { destruct v; [rewrite ixor_assign_spec by auto | rewrite ixor_spec by auto]; rewrite Vx, Vy; reflexivity. }
    rewrite E. unfold ivalo, omap; cbn [bind zsem]. rewrite ienc_val. reflexivity.
Qed.

Lemma d_umul_scalar x s : 0 <= x -> 0 <= s < 2 ^ 128 -> d_uop_s v OpMul x s = zsem FamU OpMul x s.
Proof.
  intros Hx Hs. rewrite <- BB_2_128 in Hs. pose proof (enc_canon x) as Cx. pose proof (enc_val x Hx) as Vx.
  unfold d_uop_s; cbv zeta.
  assert (E : (if s <? B then umul_digit (enc x) s else umul_u128 mul (enc x) s) = Ret (enc (x * s))).
  { destruct (Z.ltb_spec s B);
      [rewrite umul_digit_spec by (auto; lia) | rewrite umul_u128_spec by (auto using mul_params_ok)];
      rewrite Vx; reflexivity. }
  rewrite E. unfold uval, omap; cbn [bind zsem]. rewrite enc_val by nia. reflexivity.
Qed.

Lemma d_udivrem_scalar x s : 0 <= x -> 0 <= s < 2 ^ 128 ->
  d_uop_s v OpDiv x s = zsem FamU OpDiv x s /\ d_uop_s v OpRem x s = zsem FamU OpRem x s.
Proof.
  intros Hx Hs. rewrite <- BB_2_128 in Hs. pose proof (enc_canon x) as Cx. pose proof (enc_val x Hx) as Vx.
  pose proof div_params_ok as Hd.
  assert (H32 : 2 ^ 32 < B) by (rewrite B_2_64; reflexivity).
  unfold d_uop_s; cbv zeta. split.
  - assert (E : (if v && (s <? 2 ^ 32) then udiv_u32 P (enc x) s
                 else if s <? B then udiv_u64 P (enc x) s else udiv_u128 P (enc x) s) = omap enc (spec_udiv x s)).
    { destruct (v && (s <? 2 ^ 32)) eqn:E32.
      - apply andb_true_iff in E32. destruct E32 as [_ E32]. apply Z.ltb_lt in E32.
        rewrite udiv_u32_spec by (auto; lia). rewrite Vx. reflexivity.
      - destruct (Z.ltb_spec s B);
          [rewrite udiv_u64_spec by (auto; lia) | rewrite udiv_u128_spec by auto]; rewrite Vx; reflexivity. }
    rewrite E. apply nz_div; lia.
  - assert (E : (if v && (s <? 2 ^ 32) then urem_u32 P (enc x) s
                 else if s <? B then urem_u64 P (enc x) s else urem_u128 P (enc x) s) = omap enc (spec_urem x s)).
    { destruct (v && (s <? 2 ^ 32)) eqn:E32.
      - apply andb_true_iff in E32. destruct E32 as [_ E32]. apply Z.ltb_lt in E32.
        rewrite urem_u32_spec by (auto; lia). rewrite Vx. reflexivity.
      - destruct (Z.ltb_spec s B);
          [rewrite urem_u64_spec by (auto; lia) | rewrite urem_u128_spec by auto]; rewrite Vx; reflexivity. }
    rewrite E. apply nz_rem; lia.
Qed.

Lemma d_scalar_udivrem s x : 0 <= x -> 0 <= s < 2 ^ 128 ->
  d_s_uop v OpDiv s x = zsem FamU OpDiv s x /\ d_s_uop v OpRem s x = zsem FamU OpRem s x.
Proof.
  intros Hx Hs. rewrite <- BB_2_128 in Hs. pose proof (enc_canon x) as Cx. pose proof (enc_val x Hx) as Vx.
  assert (H32 : 2 ^ 32 < B) by (rewrite B_2_64; reflexivity).
  unfold d_s_uop; cbv zeta. split.
  - assert (E : (if s <? B then digit_div_u s (enc x) else u128_div_u s (enc x)) = omap enc (spec_scalar_div s x)).
    { destruct (Z.ltb_spec s B);
        [rewrite digit_div_u_spec by (auto; lia) | rewrite u128_div_u_spec by auto]; rewrite Vx; reflexivity. }
    rewrite E. apply nz_div; lia.
  - assert (E : (if v && (s <? 2 ^ 32) then u32_rem_u s (enc x)
                 else if s <? B then u64_rem_u s (enc x) else u128_rem_u s (enc x)) = omap enc (spec_scalar_rem s x)).
    { destruct (v && (s <? 2 ^ 32)) eqn:E32.
      - apply andb_true_iff in E32. destruct E32 as [_ E32]. apply Z.ltb_lt in E32.
        rewrite u32_rem_u_spec by (auto; lia). rewrite Vx. reflexivity.
      - destruct (Z.ltb_spec s B);
          [rewrite u64_rem_u_spec by (auto; lia) | rewrite u128_rem_u_spec by auto]; rewrite Vx; reflexivity. }
    rewrite E. apply nz_rem; lia.
Qed.

Lemma d_ushift_ok o x k : (o = OpShl \/ o = OpShr) -> 0 <= x -> shift_phys o x k ->
  d_ushift o x k = zsem FamU o x k.
Proof.
  intros Ho Hx Hph. pose proof (enc_canon x) as Cx. pose proof (enc_val x Hx) as Vx.
  destruct Ho; subst o; unfold d_ushift; cbn [shift_phys zsem] in *.
  - rewrite biguint_shl_spec by auto. rewrite Vx. unfold spec_shl, zshl.
    destruct (Z.ltb_spec k 0); [reflexivity|].
    unfold shl_overflow in Hph.
    destruct (Z.eqb_spec x 0) as [->|Hx0]; [reflexivity|]. cbn [negb andb] in Hph. rewrite Hph.
    unfold uval, omap; cbn [bind]. rewrite enc_val; [reflexivity|].
    pose proof (Z.pow_nonneg 2 k ltac:(lia)). nia.
  - rewrite biguint_shr_spec; auto.
    + rewrite Vx. unfold spec_shr. destruct (Z.ltb_spec k 0); [reflexivity|].
      unfold uval, omap; cbn [bind]. rewrite zshr_floor by lia.
      rewrite enc_val; [reflexivity|]. apply Z.div_pos; [lia|apply Z.pow_pos_nonneg; lia].
    + unfold vec_ok. rewrite <- (zdigits_val (enc x) Cx), Vx. exact Hph.
Qed.

Lemma d_upow_scalar x e : 0 <= x -> 0 <= e -> e < 2 ^ 128 -> d_upow_s x e = zsem FamU OpPow x e.
Proof.
  intros Hx He Hb. pose proof (enc_canon x) as Cx. pose proof (enc_val x Hx) as Vx.
  unfold d_upow_s. rewrite upow_prim_spec by (auto using umul_exact, pow_params_ok; lia).
  rewrite Vx. unfold uval, omap; cbn [bind zsem].
  replace (2 ^ 128 <=? e) with false by (symmetry; apply Z.leb_gt; assumption). rewrite andb_false_r.
  rewrite zpow_spec by assumption. rewrite enc_val by (apply Z.pow_nonneg; lia). reflexivity.
Qed.

Lemma d_upow_big x e : 0 <= x -> 0 <= e -> d_upow_b x e = zsem FamU OpPow x e.
Proof.
  intros Hx He. pose proof (enc_canon x) as Cx. pose proof (enc_val x Hx) as Vx.
  pose proof (enc_canon e) as Ce. pose proof (enc_val e He) as Ve.
  unfold d_upow_b. rewrite upow_big_spec by (auto using umul_exact, pow_params_ok).
  rewrite Vx, Ve. cbn [zsem]. rewrite Z.abs_eq by assumption.
  replace BB with (2 ^ 128) by (rewrite BB_val, B_val; reflexivity).
  destruct ((2 <=? x) && (2 ^ 128 <=? e)); [reflexivity|].
  unfold uval, omap; cbn [bind]. rewrite zpow_spec by assumption.
  rewrite enc_val by (apply Z.pow_nonneg; lia). reflexivity.
Qed.

Theorem big_ops_digit_ok : big_ops_ok (big_ops_digit v).
Proof.
  constructor; cbn [big_ops_digit bo_uop bo_uop_s bo_s_uop bo_ushift bo_upow_s bo_upow_b bo_iop].
  - exact d_ubigbig.
  - exact d_ibigbig.
  - intros x s Hx Hs. rewrite <- BB_2_128 in Hs.
    exact (H_uadd_scalar_discharged addsub addsub_params_ok x s Hx Hs).
  - intros x s Hx Hs. rewrite <- BB_2_128 in Hs.
    exact (H_usub_scalar_discharged addsub addsub_params_ok x s Hx Hs).
  - exact d_umul_scalar.
  - exact d_udivrem_scalar.
  - intros s x Hx Hs. rewrite <- BB_2_128 in Hs.
    exact (H_scalar_usub_discharged s x Hx Hs).
  - exact d_scalar_udivrem.
  - exact d_ushift_ok.
  - exact d_upow_scalar.
  - exact d_upow_big.
Qed.
End Discharge.

(* beyond the physical range of `<<` (a result of >= 2^60 digits): every form of the table panics
   with the capacity overflow, exactly like the reference leaf *)
Theorem shl_overflow_all_forms (v : bool) (orc : form -> Z -> Z -> bool) f :
  In f forms -> is_arith_role (f_role f) = true -> f_op f = OpShl ->
  forall x k, in_oty (k_ty (f_lhs f)) x -> in_oty (k_ty (f_rhs f)) k -> 0 <= k -> shl_overflow x k = true ->
  eval_form (leaf_of (big_ops_digit v)) forms orc f x k = Panic MemOverflow.
Proof.
  intros Hin Hr Ho x k Hx Hk Hk0 Hov.
  rewrite (forms_agree_ref (big_ops_digit v) orc (big_ops_digit_ok v)) by assumption.
  assert (U : forall z, 0 <= z -> shl_overflow z k = true -> d_ushift OpShl z k = Panic MemOverflow).
  { intros z Hz Hov'. unfold d_ushift. rewrite biguint_shl_spec by apply enc_canon.
    rewrite enc_val by assumption. unfold spec_shl. destruct (Z.ltb_spec k 0); [lia|].
    unfold shl_overflow in Hov'. destruct (z =? 0); [discriminate|]. cbn [negb andb] in Hov'.
    rewrite Hov'. reflexivity. }
  pose proof (shift_row_lhs f Hin ltac:(rewrite Ho; reflexivity)) as El. rewrite El in Hx.
  rewrite Ho. cbn [sem_ref big_ops_digit bo_ushift]. destruct (fam f); cbn [in_oty] in Hx.
  - apply U; assumption.
  - unfold FormsLeaves.ishl. rewrite U by (try rewrite shl_overflow_abs; auto; lia). reflexivity.
Qed.
