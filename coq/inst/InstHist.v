(* InstHist.v — the history machine is instantiated at the parameters extracted from /repo's
   current source; its side condition is the conjunction of the owning areas' conditions. *)
From BigNum Require Import Base AddSub Div Bits Mul MulProofs Hist HistProofs Extracted
  InstAddSub InstDiv InstBits InstPgr InstRadix.

Definition hist_extracted : hist_params :=
  mkHP Extracted.addsub Extracted.div Extracted.bits Extracted.mul
       Extracted.pgr_pow Extracted.pgr_gcd Extracted.pgr_roots Extracted.radix.

Lemma mul_params_ok_hist : mul_ok Extracted.mul = true.
Proof. vm_compute. reflexivity. Qed.

Lemma hist_params_ok : hist_ok hist_extracted = true.
Proof.
  unfold hist_ok, hist_extracted; cbn [hp_as hp_div hp_bits hp_mul hp_pow hp_gcd hp_roots hp_radix].
  rewrite addsub_params_ok, div_params_ok, bits_params_ok, mul_params_ok_hist,
    pow_params_ok, gcd_params_ok, roots_params_ok, radix_params_ok. reflexivity.
Qed.
