(* InstHist.v — the history machine is instantiated at the parameters extracted from /repo's
   current source; its side condition is the conjunction of the owning areas' conditions. *)
From BigNum Require Import Base AddSub Div Bits Hist HistProofs Extracted InstAddSub InstDiv InstBits.

Definition hist_extracted : hist_params := mkHP Extracted.addsub Extracted.div Extracted.bits.

Lemma hist_params_ok : hist_ok hist_extracted = true.
Proof.
  unfold hist_ok, hist_extracted; cbn [hp_as hp_div hp_bits].
  rewrite addsub_params_ok, div_params_ok, bits_params_ok. reflexivity.
Qed.
