(* InstHist.v — the history machine is instantiated at the parameters extracted from /repo's
   current source; its side condition is the conjunction of the owning areas' conditions. *)
From BigNum Require Import Base BaseLemmas AddSub Div Bits Mul MulProofs MulProofs3 MulProofs5 RadixInst
  Hist HistProofs Extracted InstAddSub InstDiv InstBits InstMul InstPgr InstRadix InstIter InstSerde InstBytes InstSign.

Definition hist_extracted : hist_params :=
  mkHP Extracted.addsub Extracted.div Extracted.bits Extracted.mul
       Extracted.pgr_pow Extracted.pgr_gcd Extracted.pgr_roots Extracted.radix
       Extracted.iter Extracted.serde Extracted.byteio Extracted.signs.

Lemma hist_params_ok : hist_ok hist_extracted = true.
Proof.
  unfold hist_ok, hist_ok_core, hist_extracted; cbn [hp_as hp_div hp_bits hp_mul hp_pow hp_gcd hp_roots hp_radix hp_iter hp_serde hp_bytes hp_sign].
  rewrite addsub_params_ok, div_params_ok, bits_params_ok, mul_params_ok,
    pow_params_ok, gcd_params_ok, roots_params_ok, radix_params_ok, iter_params_ok, serde_params_ok, bytes_params_ok, sign_params_ok. reflexivity.
Qed.

(** The two statements of property C02 that the multiplying operations (`*=`, pow, cbrt,
    nth_root, lcm) and the text of long values rest on: proved in area `mul`
    (MulProofs3.scalar_mul_spec, MulProofs5.mul3_spec).  With them [op_ok] is [op_wf] and
    [text_ok] holds of every object: nothing in props/C04.v is relative to C02 any more. *)
Lemma mul_statements_hold : mul_statements.
Proof.
  split.
  - intros a s Ca Hs. apply scalar_mul_spec; [exact Ca|exact Hs].
  - intros mp x y Hp Cx Cy. apply mul3_spec; [exact Hp|apply Cx|apply Cy].
Qed.

Lemma op_ok_of_wf o : op_wf o -> op_ok o.
Proof. intros W. split; [exact W|]. intros _. exact mul_statements_hold. Qed.

Lemma ops_ok_of_wf ops : Forall op_wf ops -> Forall op_ok ops.
Proof. exact (ops_ok_mul ops mul_statements_hold). Qed.

Lemma text_ok_holds s : text_ok s.
Proof. right. exact mul_statements_hold. Qed.
