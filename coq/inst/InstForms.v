(* InstForms.v — every row of the source-extracted operator-form table satisfies the decidable
   soundness condition.  Re-checked on every run against the regenerated gen/Extracted.v. *)
From BigNum Require Import Base Forms Extracted.
Lemma C10_all_forms : forallb (check_form forms) forms = true.
Proof. vm_compute. reflexivity. Qed.
Example C10_forms_count : Z.of_nat (length forms) = 1286 /\ forms_count = 1286.
Proof. split; vm_compute; reflexivity. Qed.
