(* InstForms.v — C10 instantiated on the source-extracted table.
   C10_all_forms is re-checked on every run against the regenerated gen/Extracted.v; the other
   theorems combine it with the generic soundness lemmas (FormsProofs) and the leaf specs
   (FormsLeavesProofs). *)
From Coq Require Import ZArith List Bool Lia.
From BigNum Require Import Base Forms FormsLeaves FormsProofs FormsLeavesProofs Extracted.
Import ListNotations.
Open Scope Z_scope.

Lemma C10_all_forms : forallb (check_form forms) forms = true.
Proof. vm_compute. reflexivity. Qed.
Example C10_forms_count : Z.of_nat (length forms) = 1286 /\ forms_count = 1286.
Proof. split; vm_compute; reflexivity. Qed.

(* value-level behaviour of the BigUint / BigInt-by-BigInt operations owned by the other areas
   ([big_ops_ok] is proved for the digit-level models in InstFormsOps.big_ops_digit_ok) *)
Record big_ops := {
  bo_uop : opk -> Z -> Z -> outcome Z;      (* BigUint (op) BigUint leaves *)
  bo_uop_s : opk -> Z -> Z -> outcome Z;    (* BigUint (op) uN, (op)= uN *)
  bo_s_uop : opk -> Z -> Z -> outcome Z;    (* uN (op) BigUint *)
  bo_ushift : opk -> Z -> Z -> outcome Z;   (* biguint_shl / biguint_shr *)
  bo_upow_s : Z -> Z -> outcome Z;          (* Pow<uN> for BigUint *)
  bo_upow_b : Z -> Z -> outcome Z;          (* Pow<&BigUint> for BigUint *)
  bo_iop : opk -> Z -> Z -> outcome Z       (* BigInt (op) BigInt leaves *)
}.
Record big_ops_ok (p : big_ops) : Prop := {
  H_ubigbig : forall o x y, bigbig8 o = true -> 0 <= x -> 0 <= y -> bo_uop p o x y = zsem FamU o x y;
  H_ibigbig : forall o x y, bigbig8 o = true -> bo_iop p o x y = zsem FamI o x y;
  (* s: the value of a primitive scalar, below 2^128 *)
  H_uadd_scalar : forall x s, 0 <= x -> 0 <= s < 2 ^ 128 -> bo_uop_s p OpAdd x s = zsem FamU OpAdd x s;
  H_usub_scalar : forall x s, 0 <= x -> 0 <= s < 2 ^ 128 -> bo_uop_s p OpSub x s = zsem FamU OpSub x s;
  H_umul_scalar : forall x s, 0 <= x -> 0 <= s < 2 ^ 128 -> bo_uop_s p OpMul x s = zsem FamU OpMul x s;
  H_udivrem_scalar : forall x s, 0 <= x -> 0 <= s < 2 ^ 128 ->
      bo_uop_s p OpDiv x s = zsem FamU OpDiv x s /\ bo_uop_s p OpRem x s = zsem FamU OpRem x s;
  H_scalar_usub : forall s x, 0 <= x -> 0 <= s < 2 ^ 128 -> bo_s_uop p OpSub s x = zsem FamU OpSub s x;
  H_scalar_udivrem : forall s x, 0 <= x -> 0 <= s < 2 ^ 128 ->
      bo_s_uop p OpDiv s x = zsem FamU OpDiv s x /\ bo_s_uop p OpRem s x = zsem FamU OpRem s x;
  (* shifts: inside the physical range of C07 (FormsLeavesProofs.shift_phys) *)
  H_ushift : forall o x k, (o = OpShl \/ o = OpShr) -> 0 <= x -> shift_phys o x k ->
      bo_ushift p o x k = zsem FamU o x k;
  H_upow_scalar : forall x e, 0 <= x -> 0 <= e -> e < 2 ^ 128 -> bo_upow_s p x e = zsem FamU OpPow x e;
  H_upow_big : forall x e, 0 <= x -> 0 <= e -> bo_upow_b p x e = zsem FamU OpPow x e
}.
Definition leaf_of (p : big_ops) : form -> Z -> Z -> outcome Z :=
  leaf_model (bo_uop p) (bo_uop_s p) (bo_s_uop p) (bo_ushift p) (bo_upow_s p) (bo_upow_b p) (bo_iop p).
Definition leafc_of (p : big_ops) (f : form) (x y : Z) : outcome (option Z) :=
  uchecked_sub_model (bo_uop p OpSub) x y.

Lemma leaf_of_ok p : big_ops_ok p -> forall f x y,
  is_arith_role (f_role f) = true -> f_shape f = SLeaf -> known_leaf f = true ->
  in_oty (k_ty (f_lhs f)) x -> in_oty (k_ty (f_rhs f)) y -> shift_phys (f_op f) x y ->
  leaf_of p f x y = zsem (fam f) (f_op f) x y.
Proof.
  intros [] f x y Hr _ Hk Hx Hy Hph. unfold leaf_of. apply leaf_model_sound; assumption.
Qed.

(* ---- the reference the forms are compared with -------------------------------------------------
   For every operator except the two shifts: the Z-level ref-ref semantics [zsem].  For `<<` / `>>`:
   the reference leaf itself (`biguint_shl/shr::<T>(Cow<BigUint>, T)` for BigUint, its sign wrapper
   of src/bigint/shift.rs for BigInt), which IS [zsem] inside the physical range [shift_phys]
   ([sem_ref_zsem]) and a capacity-overflow panic beyond it — in every form alike. *)
Definition is_shift (o : opk) : bool := match o with OpShl | OpShr => true | _ => false end.
Definition sem_ref (p : big_ops) (b : bigty) (o : opk) (x y : Z) : outcome Z :=
  match o with
  | OpShl => match b with
             | FamU => bo_ushift p OpShl x y
             | FamI => FormsLeaves.ishl (bo_ushift p) x y
             end
  | OpShr => match b with
             | FamU => bo_ushift p OpShr x y
             | FamI => FormsLeaves.ishr (bo_uop_s p) (bo_ushift p) x y
             end
  | _ => zsem b o x y
  end.

Lemma sem_ref_nonshift p b o x y : is_shift o = false -> sem_ref p b o x y = zsem b o x y.
Proof. destruct o; simpl; intros; try discriminate; reflexivity. Qed.

Lemma sem_ref_zsem p : big_ops_ok p -> forall b o x y,
  in_oty (OBig b) x -> shift_phys o x y -> sem_ref p b o x y = zsem b o x y.
Proof.
  intros Hp b o x y Hx Hph.
  destruct (is_shift o) eqn:Es; [|apply sem_ref_nonshift; assumption].
  destruct Hp. destruct o; try discriminate; destruct b; cbn [sem_ref in_oty] in *.
  - apply H_ushift0; auto.
  - eapply leaf_ishl_spec; eauto.
  - apply H_ushift0; auto.
  - eapply leaf_ishr_spec; eauto.
Qed.

Lemma sem_ref_comm p b o x y : commutative o = true -> sem_ref p b o x y = sem_ref p b o y x.
Proof.
  intros Hc. rewrite !sem_ref_nonshift by (destruct o; try discriminate; reflexivity).
  apply zsem_comm; assumption.
Qed.

Lemma leaf_of_ref p : big_ops_ok p -> forall f x y,
  is_arith_role (f_role f) = true -> f_shape f = SLeaf -> known_leaf f = true ->
  in_oty (k_ty (f_lhs f)) x -> in_oty (k_ty (f_rhs f)) y ->
  leaf_of p f x y = sem_ref p (fam f) (f_op f) x y.
Proof.
  intros Hp f x y Hr Hs Hk Hx Hy.
  destruct (is_shift (f_op f)) eqn:Es.
  - (* a shift leaf is `big (<<|>>) scalar`: the reference leaf itself *)
    clear Hp Hx Hy Hs. destruct f as [r o [tl rl] [tr rr] sh].
    unfold known_leaf, leaf_of, leaf_model, fam in *. cbn [f_role f_op f_lhs f_rhs k_ty k_ref] in *.
    destruct o; try discriminate;
      destruct r; try discriminate;
      destruct tl as [[|]|sl], tr as [[|]|sr]; simpl in Hk; rewrite ?andb_false_r in Hk;
      try discriminate; reflexivity.
  - rewrite sem_ref_nonshift by assumption. apply leaf_of_ok; try assumption.
    destruct (f_op f); try discriminate; exact I.
Qed.

(* every shift row has the big operand on the left *)
Lemma shift_rows_lhs_big :
  forallb (fun f => negb (is_shift (f_op f)) ||
                    match k_ty (f_lhs f) with OBig _ => true | OSc _ => false end) forms = true.
Proof. vm_compute. reflexivity. Qed.

Lemma shift_row_lhs f : In f forms -> is_shift (f_op f) = true -> k_ty (f_lhs f) = OBig (fam f).
Proof.
  intros Hin Es. pose proof shift_rows_lhs_big as H. rewrite forallb_forall in H. specialize (H f Hin).
  rewrite Es in H. cbn [negb orb] in H. unfold fam. destruct (k_ty (f_lhs f)); [reflexivity|discriminate].
Qed.

(* every binary / compound-assignment form of the table, whatever the capacity test answers,
   for ALL operand values: equal to the reference (for shifts: to the reference leaf, panics
   included) *)
Theorem forms_agree_ref p (orc : form -> Z -> Z -> bool) :
  big_ops_ok p ->
  forall f, In f forms -> is_arith_role (f_role f) = true ->
  forall x y, in_oty (k_ty (f_lhs f)) x -> in_oty (k_ty (f_rhs f)) y ->
  eval_form (leaf_of p) forms orc f x y = sem_ref p (fam f) (f_op f) x y.
Proof.
  intros Hp f Hin Hr x y Hx Hy.
  apply form_sound; try assumption.
  - intros; apply sem_ref_comm; assumption.
  - apply leaf_of_ref; assumption.
  - pose proof C10_all_forms as H. rewrite forallb_forall in H. apply H; assumption.
Qed.

(* ... hence to the Z-level semantics; the two shift operators inside their physical range *)
Theorem forms_agree p (orc : form -> Z -> Z -> bool) :
  big_ops_ok p ->
  forall f, In f forms -> is_arith_role (f_role f) = true ->
  forall x y, in_oty (k_ty (f_lhs f)) x -> in_oty (k_ty (f_rhs f)) y -> shift_phys (f_op f) x y ->
  eval_form (leaf_of p) forms orc f x y = zsem (fam f) (f_op f) x y.
Proof.
  intros Hp f Hin Hr x y Hx Hy Hph.
  rewrite forms_agree_ref by assumption.
  destruct (is_shift (f_op f)) eqn:Es; [|apply sem_ref_nonshift; assumption].
  apply sem_ref_zsem; try assumption.
  rewrite <- (shift_row_lhs f Hin Es). exact Hx.
Qed.

(* checked_add / checked_sub / checked_mul / checked_div: Some(ref-ref result), None exactly where it panics *)
Lemma checked_rows_nonshift :
  forallb (fun f => negb (role_eqb (f_role f) RChecked) || negb (is_shift (f_op f))) forms = true.
Proof. vm_compute. reflexivity. Qed.

Theorem checked_agree p (orc : form -> Z -> Z -> bool) :
  big_ops_ok p ->
  forall f, In f forms -> f_role f = RChecked ->
  forall x y, in_oty (OBig (fam f)) x -> in_oty (OBig (fam f)) y ->
  eval_checked (leaf_of p) forms orc (leafc_of p) f x y = checked_of (zsem (fam f) (f_op f) x y).
Proof.
  intros Hp f Hin Hr x y Hx Hy.
  assert (Hns : is_shift (f_op f) = false).
  { pose proof checked_rows_nonshift as H. rewrite forallb_forall in H. specialize (H f Hin).
    rewrite Hr in H. simpl in H. destruct (is_shift (f_op f)); [discriminate|reflexivity]. }
  rewrite <- (sem_ref_nonshift p) by assumption.
  apply checked_sound with (sem := sem_ref p); try assumption.
  - intros; apply sem_ref_comm; assumption.
  - apply leaf_of_ref; assumption.
  - intros b o a c Hn Ha Hc. rewrite sem_ref_nonshift by (destruct o; try discriminate; reflexivity).
    apply zsem_total; assumption.
  - intros b o a c Hn Ha Hc. rewrite sem_ref_nonshift by (destruct o; try discriminate; reflexivity).
    apply zsem_divzero; assumption.
  - intros g a b Gr Gs Gk Ha Hb. unfold known_leaf in Gk; rewrite Gr in Gk.
    apply andb_true_iff in Gk; destruct Gk as [Go Gf].
    apply opk_eqb_eq in Go; apply bigty_eqb_eq in Gf. rewrite Go, Gf in *. simpl in Ha, Hb.
    cbn [sem_ref]. unfold leafc_of, uchecked_sub_model.
    destruct Hp as [Hub _ _ _ _ _ _ _ _ _ _]. rewrite Hub by (auto; lia). simpl.
    destruct (Z.compare_spec a b); destruct (Z.ltb_spec a b); try lia; try reflexivity.
    simpl. f_equal. f_equal. lia.
  - pose proof C10_all_forms as H. rewrite forallb_forall in H. apply H; assumption.
Qed.

(* Sum / Product: folding the table's `Res (op) Item` form over the items is the sum / the product
   (for BigUint results the item kind must be non-negative: BigUint or an unsigned scalar) *)
Theorem folds_agree p (orc : form -> Z -> Z -> bool) :
  big_ops_ok p ->
  forall f, In f forms -> f_role f = RFold ->
  exists b init, k_ty (f_lhs f) = OBig b /\ f_shape f = SFold init (f_op f) /\
    ((f_op f = OpAdd /\ init = 0) \/ (f_op f = OpMul /\ init = 1)) /\
    forall kt g l, lookup forms RBinop (f_op f) (kb b false) kt = Some g ->
      (b = FamU -> forall v, in_oty (k_ty kt) v -> 0 <= v) -> Forall (in_oty (k_ty kt)) l ->
      eval_fold (leaf_of p) forms orc f kt l =
      Ret (fold_left (match f_op f with OpAdd => Z.add | _ => Z.mul end) l init).
Proof.
  intros Hp f Hin Hr.
  pose proof C10_all_forms as Hall. rewrite forallb_forall in Hall.
  pose proof (Hall f Hin) as Hc. unfold check_form in Hc; rewrite Hr in Hc.
  destruct (f_shape f) as [| | | | |init o|] eqn:Es; try discriminate.
  destruct (k_ty (f_lhs f)) as [b|] eqn:Eb; try discriminate.
  rewrite !andb_true_iff in Hc. destruct Hc as [[Ho _] Hi]. apply opk_eqb_eq in Ho; subst o.
  exists b, init. split; [reflexivity|]. split; [reflexivity|].
  assert (Hcase : (f_op f = OpAdd /\ init = 0) \/ (f_op f = OpMul /\ init = 1)).
  { apply orb_true_iff in Hi; destruct Hi as [Hi|Hi]; apply andb_true_iff in Hi; destruct Hi as [H1 H2];
      apply opk_eqb_eq in H1; apply Z.eqb_eq in H2; auto. }
  split; [exact Hcase|].
  intros kt g l El Hpos Hl.
  assert (Hg : check_fuel forms FUEL g = true).
  { pose proof (lookup_spec _ _ _ _ _ _ El) as (Gr & _).
    pose proof El as El'. unfold lookup in El'. apply find_some in El'. destruct El' as [Gin _].
    pose proof (Hall g Gin) as Hcg. unfold check_form in Hcg. rewrite Gr in Hcg. exact Hcg. }
  assert (Hinit : in_oty (OBig b) init) by (destruct b; simpl; [destruct Hcase as [[_ ->]|[_ ->]]; lia | exact I]).
  rewrite (fold_sound (sem_ref p) (leaf_of p) forms orc) with (b := b) (init := init) (o := f_op f) (g := g); try assumption.
  - unfold fold_sem. destruct Hcase as [[-> _]|[-> _]]; [apply zsum_spec | apply zproduct_spec].
  - intros; apply sem_ref_comm; assumption.
  - apply leaf_of_ref; assumption.
  - intros x y v Hx Hy E. apply (zsem_closed_add_mul b (f_op f) (k_ty kt) x y v); try assumption.
    + destruct Hcase as [[-> _]|[-> _]]; auto.
    + intros Eb'; apply Hpos; assumption.
    + rewrite <- E. symmetry. apply sem_ref_nonshift. destruct Hcase as [[-> _]|[-> _]]; reflexivity.
Qed.

(* the hypotheses are satisfiable: the Z-level operations themselves (this is the instance the
   driver runs, FormsLeaves.leaf_z) *)
Definition big_ops_z : big_ops :=
  {| bo_uop := zsem FamU; bo_uop_s := zsem FamU; bo_s_uop := zsem FamU; bo_ushift := zsem FamU;
     bo_upow_s := zsem FamU OpPow; bo_upow_b := zsem FamU OpPow; bo_iop := zsem FamI |}.
Lemma big_ops_z_ok : big_ops_ok big_ops_z.
Proof. constructor; simpl; intros; auto. Qed.
Lemma leaf_of_z : leaf_of big_ops_z = leaf_z.
Proof. reflexivity. Qed.
