(* InstSign.v — the source-extracted arms / tests of the sign helpers (src/bigint.rs: Signed, Zero,
   Ord, from_biguint, to_biguint; src/bigint/convert.rs: ToBigUint, TryFrom<BigInt>, From<BigUint>)
   are the ones the C19 theorems are proved for.  Re-checked on every run against the regenerated
   gen/Extracted.v. *)
From BigNum Require Import Base SrcLit AddSub Sign SignProofs Extracted.
Lemma sign_params_ok : sign_ok Extracted.signs = true.
Proof. vm_compute. reflexivity. Qed.
