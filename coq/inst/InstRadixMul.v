(* InstRadixMul.v — the premise [small_or_umul u] of the radix output theorems (RadixInst.v)
   holds for every operand: its right disjunct is the statement of MulProofs5.umul_spec (C02). *)
From Coq Require Import ZArith List.
From BigNum Require Import Base BaseLemmas X86 AddSub Mul MulProofs MulProofs5 RadixInst.
Open Scope Z_scope.

Lemma small_or_umul_proved u : small_or_umul u.
Proof. right. intros mp a b Hp Ca Cb. apply umul_spec; auto. Qed.
