(* InstPrim.v — the decision points extracted from src/{biguint,bigint}/convert.rs satisfy what
   the C08 theorems need.  Re-checked on every run against the regenerated gen/Extracted.v:
   reverting the D6 fix (`bits -= bits_want`) or flipping a comparison breaks this lemma. *)
From BigNum Require Import Base Prim PrimProofsCast Extracted.
Lemma prim_params_ok : prim_ok prim = true.
Proof. vm_compute. reflexivity. Qed.
